#!/bin/sh
# offline build of the SSA exporter; nothing is fetched
set -e
DIR="$(cd "$(dirname "$0")" && pwd)"
export GOFLAGS=-mod=mod GOPROXY=off GOSUMDB=off GOTOOLCHAIN=local
mkdir -p "$DIR/govc/bin" "$DIR/evidence"
cd "$DIR/govc/export" && go build -o "$DIR/govc/bin/govc-export" .
python3-vt -c "import z3, sys; sys.exit(0)"
python3-vt -m compileall -q "$DIR/govc/py" >/dev/null
echo "govc ready"
