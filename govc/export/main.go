// govc-export: mechanical export of go/ssa for the packages of /repo a check needs.
//
// Nothing is interpreted here. Output: one JSON document with a type table and,
// per function (including anonymous functions and the synthetic package
// initialiser), its basic blocks and instructions with operand references,
// go/types types and source positions.
//
// Dropped by the extraction: comments, spelling of local identifiers that
// go/ssa lifted to registers, blocks go/ssa removed as unreachable.
package main

import (
	"encoding/json"
	"flag"
	"fmt"
	"go/ast"
	"go/constant"
	"go/token"
	"go/types"
	"os"
	"sort"
	"strings"

	"golang.org/x/tools/go/packages"
	"golang.org/x/tools/go/ssa"
	"golang.org/x/tools/go/ssa/ssautil"
)

const modPrefix = "github.com/evolbioinfo/gotree/"

type J = map[string]interface{}

var (
	typeTable = map[string]J{}
	fset      *token.FileSet
)

func short(s string) string { return strings.ReplaceAll(s, modPrefix, "") }

func qual(p *types.Package) string {
	if p == nil {
		return ""
	}
	return short(p.Path())
}

func tkey(t types.Type) string {
	if t == nil {
		return "<nil>"
	}
	k := types.TypeString(t, qual)
	if _, ok := typeTable[k]; ok {
		return k
	}
	e := J{}
	typeTable[k] = e // reserve (recursion)
	switch tt := t.(type) {
	case *types.Basic:
		e["kind"] = "basic"
		e["name"] = tt.Name()
	case *types.Pointer:
		e["kind"] = "ptr"
		e["elem"] = tkey(tt.Elem())
	case *types.Slice:
		e["kind"] = "slice"
		e["elem"] = tkey(tt.Elem())
	case *types.Array:
		e["kind"] = "array"
		e["elem"] = tkey(tt.Elem())
		e["len"] = tt.Len()
	case *types.Map:
		e["kind"] = "map"
		e["key"] = tkey(tt.Key())
		e["elem"] = tkey(tt.Elem())
	case *types.Chan:
		e["kind"] = "chan"
		e["elem"] = tkey(tt.Elem())
	case *types.Struct:
		e["kind"] = "struct"
		fs := []J{}
		for i := 0; i < tt.NumFields(); i++ {
			f := tt.Field(i)
			fs = append(fs, J{"name": f.Name(), "type": tkey(f.Type()), "embedded": f.Embedded()})
		}
		e["fields"] = fs
	case *types.Named:
		e["kind"] = "named"
		e["name"] = k
		e["underlying"] = tkey(tt.Underlying())
	case *types.Alias:
		// an alias may print like its target (`any` is interface{}): never let an entry point at itself
		delete(typeTable, k)
		u := tkey(types.Unalias(tt))
		if u == k {
			return k
		}
		e["kind"] = "named"
		e["name"] = k
		e["underlying"] = u
		typeTable[k] = e
	case *types.Interface:
		e["kind"] = "iface"
		ms := []string{}
		for i := 0; i < tt.NumMethods(); i++ {
			ms = append(ms, tt.Method(i).Name())
		}
		e["methods"] = ms
	case *types.Signature:
		e["kind"] = "func"
		ps := []string{}
		for i := 0; i < tt.Params().Len(); i++ {
			ps = append(ps, tkey(tt.Params().At(i).Type()))
		}
		rs := []string{}
		for i := 0; i < tt.Results().Len(); i++ {
			rs = append(rs, tkey(tt.Results().At(i).Type()))
		}
		e["params"] = ps
		e["results"] = rs
		e["variadic"] = tt.Variadic()
	case *types.Tuple:
		e["kind"] = "tuple"
		es := []string{}
		for i := 0; i < tt.Len(); i++ {
			es = append(es, tkey(tt.At(i).Type()))
		}
		e["elems"] = es
	default:
		e["kind"] = "other"
		e["go"] = fmt.Sprintf("%T", t)
	}
	return k
}

func fkey(f *ssa.Function) string {
	if f == nil {
		return ""
	}
	return short(f.String())
}

func pos(p token.Pos) string {
	if !p.IsValid() {
		return ""
	}
	pp := fset.Position(p)
	return fmt.Sprintf("%s:%d:%d", strings.TrimPrefix(pp.Filename, "/repo/"), pp.Line, pp.Column)
}

func operand(v ssa.Value) J {
	if v == nil {
		return nil
	}
	switch x := v.(type) {
	case *ssa.Const:
		o := J{"k": "const", "type": tkey(x.Type())}
		if x.Value == nil {
			o["vk"] = "nil"
		} else {
			switch x.Value.Kind() {
			case constant.Bool:
				o["vk"] = "bool"
				o["v"] = constant.BoolVal(x.Value)
			case constant.String:
				o["vk"] = "string"
				o["v"] = constant.StringVal(x.Value)
			case constant.Int:
				o["vk"] = "int"
				o["v"] = x.Value.ExactString()
			case constant.Float:
				o["vk"] = "float"
				o["v"] = x.Value.ExactString()
			default:
				o["vk"] = "other"
				o["v"] = x.Value.ExactString()
			}
		}
		return o
	case *ssa.Parameter:
		return J{"k": "param", "name": x.Name(), "type": tkey(x.Type())}
	case *ssa.FreeVar:
		return J{"k": "freevar", "name": x.Name(), "type": tkey(x.Type())}
	case *ssa.Global:
		return J{"k": "global", "pkg": qual(x.Pkg.Pkg), "name": x.Name(), "type": tkey(x.Type())}
	case *ssa.Function:
		return J{"k": "func", "key": fkey(x), "type": tkey(x.Type())}
	case *ssa.Builtin:
		return J{"k": "builtin", "name": x.Name()}
	default:
		return J{"k": "reg", "name": v.Name(), "type": tkey(v.Type())}
	}
}

func operands(vs []ssa.Value) []J {
	r := []J{}
	for _, v := range vs {
		r = append(r, operand(v))
	}
	return r
}

func callCommon(c *ssa.CallCommon, o J) {
	o["args"] = operands(c.Args)
	if c.IsInvoke() {
		o["invoke"] = c.Method.Name()
		o["recv"] = operand(c.Value)
		o["iface"] = tkey(c.Value.Type())
		o["sig"] = tkey(c.Method.Type())
	} else {
		o["callee"] = operand(c.Value)
		if sc := c.StaticCallee(); sc != nil {
			o["static"] = fkey(sc)
			if sc.Pkg != nil {
				o["static_pkg"] = qual(sc.Pkg.Pkg)
			} else if sc.Object() != nil && sc.Object().Pkg() != nil {
				o["static_pkg"] = qual(sc.Object().Pkg())
			}
			o["static_name"] = sc.Name()
			if sc.Signature.Recv() != nil {
				o["static_recv"] = tkey(sc.Signature.Recv().Type())
			}
		}
		o["sig"] = tkey(c.Signature())
	}
}

func instr(in ssa.Instruction) J {
	o := J{"pos": pos(in.Pos())}
	if v, ok := in.(ssa.Value); ok {
		o["name"] = v.Name()
		o["type"] = tkey(v.Type())
	}
	switch x := in.(type) {
	case *ssa.Alloc:
		o["op"] = "Alloc"
		o["heap"] = x.Heap
		o["comment"] = x.Comment
	case *ssa.BinOp:
		o["op"] = "BinOp"
		o["tok"] = x.Op.String()
		o["x"] = operand(x.X)
		o["y"] = operand(x.Y)
	case *ssa.Call:
		o["op"] = "Call"
		callCommon(&x.Call, o)
	case *ssa.ChangeInterface:
		o["op"] = "ChangeInterface"
		o["x"] = operand(x.X)
	case *ssa.ChangeType:
		o["op"] = "ChangeType"
		o["x"] = operand(x.X)
	case *ssa.Convert:
		o["op"] = "Convert"
		o["x"] = operand(x.X)
	case *ssa.MultiConvert:
		o["op"] = "MultiConvert"
		o["x"] = operand(x.X)
	case *ssa.SliceToArrayPointer:
		o["op"] = "SliceToArrayPointer"
		o["x"] = operand(x.X)
	case *ssa.DebugRef:
		id, ok := x.Expr.(*ast.Ident)
		if !ok {
			return nil
		}
		if v, isv := x.Object().(*types.Var); !isv || v.IsField() {
			return nil
		}
		o["op"] = "DebugRef"
		o["var"] = id.Name
		o["x"] = operand(x.X)
		o["isaddr"] = x.IsAddr
	case *ssa.Defer:
		o["op"] = "Defer"
		callCommon(&x.Call, o)
	case *ssa.Extract:
		o["op"] = "Extract"
		o["x"] = operand(x.Tuple)
		o["index"] = x.Index
	case *ssa.Field:
		o["op"] = "Field"
		o["x"] = operand(x.X)
		o["field"] = x.Field
	case *ssa.FieldAddr:
		o["op"] = "FieldAddr"
		o["x"] = operand(x.X)
		o["field"] = x.Field
	case *ssa.Go:
		o["op"] = "Go"
		callCommon(&x.Call, o)
	case *ssa.If:
		o["op"] = "If"
		o["cond"] = operand(x.Cond)
	case *ssa.Index:
		o["op"] = "Index"
		o["x"] = operand(x.X)
		o["index"] = operand(x.Index)
	case *ssa.IndexAddr:
		o["op"] = "IndexAddr"
		o["x"] = operand(x.X)
		o["index"] = operand(x.Index)
	case *ssa.Jump:
		o["op"] = "Jump"
	case *ssa.Lookup:
		o["op"] = "Lookup"
		o["x"] = operand(x.X)
		o["index"] = operand(x.Index)
		o["commaok"] = x.CommaOk
	case *ssa.MakeChan:
		o["op"] = "MakeChan"
		o["size"] = operand(x.Size)
	case *ssa.MakeClosure:
		o["op"] = "MakeClosure"
		o["fn"] = fkey(x.Fn.(*ssa.Function))
		o["bindings"] = operands(x.Bindings)
	case *ssa.MakeInterface:
		o["op"] = "MakeInterface"
		o["x"] = operand(x.X)
	case *ssa.MakeMap:
		o["op"] = "MakeMap"
		o["reserve"] = operand(x.Reserve)
	case *ssa.MakeSlice:
		o["op"] = "MakeSlice"
		o["len"] = operand(x.Len)
		o["cap"] = operand(x.Cap)
	case *ssa.MapUpdate:
		o["op"] = "MapUpdate"
		o["map"] = operand(x.Map)
		o["key"] = operand(x.Key)
		o["value"] = operand(x.Value)
	case *ssa.Next:
		o["op"] = "Next"
		o["iter"] = operand(x.Iter)
		o["isstring"] = x.IsString
	case *ssa.Panic:
		o["op"] = "Panic"
		o["x"] = operand(x.X)
	case *ssa.Phi:
		o["op"] = "Phi"
		o["edges"] = operands(x.Edges)
		o["comment"] = x.Comment
	case *ssa.Range:
		o["op"] = "Range"
		o["x"] = operand(x.X)
	case *ssa.Return:
		o["op"] = "Return"
		o["results"] = operands(x.Results)
	case *ssa.RunDefers:
		o["op"] = "RunDefers"
	case *ssa.Select:
		o["op"] = "Select"
	case *ssa.Send:
		o["op"] = "Send"
		o["chan"] = operand(x.Chan)
		o["x"] = operand(x.X)
	case *ssa.Slice:
		o["op"] = "Slice"
		o["x"] = operand(x.X)
		o["low"] = operand(x.Low)
		o["high"] = operand(x.High)
		o["max"] = operand(x.Max)
	case *ssa.Store:
		o["op"] = "Store"
		o["addr"] = operand(x.Addr)
		o["val"] = operand(x.Val)
	case *ssa.TypeAssert:
		o["op"] = "TypeAssert"
		o["x"] = operand(x.X)
		o["asserted"] = tkey(x.AssertedType)
		o["commaok"] = x.CommaOk
	case *ssa.UnOp:
		o["op"] = "UnOp"
		o["tok"] = x.Op.String()
		o["x"] = operand(x.X)
		o["commaok"] = x.CommaOk
	default:
		o["op"] = fmt.Sprintf("?%T", in)
	}
	return o
}

func exportFunc(f *ssa.Function) J {
	o := J{"key": fkey(f), "name": f.Name(), "synthetic": f.Synthetic, "pos": pos(f.Pos())}
	if f.Pkg != nil {
		o["pkg"] = qual(f.Pkg.Pkg)
	}
	if f.Parent() != nil {
		o["parent"] = fkey(f.Parent())
	}
	if syn := f.Syntax(); syn != nil {
		o["src_start"] = pos(syn.Pos())
		o["src_end"] = pos(syn.End())
	}
	ps := []J{}
	for _, p := range f.Params {
		ps = append(ps, J{"name": p.Name(), "type": tkey(p.Type())})
	}
	o["params"] = ps
	fv := []J{}
	for _, p := range f.FreeVars {
		fv = append(fv, J{"name": p.Name(), "type": tkey(p.Type())})
	}
	o["freevars"] = fv
	rs := []J{}
	res := f.Signature.Results()
	for i := 0; i < res.Len(); i++ {
		rs = append(rs, J{"name": res.At(i).Name(), "type": tkey(res.At(i).Type())})
	}
	o["results"] = rs
	o["has_recv"] = f.Signature.Recv() != nil
	o["sig"] = tkey(f.Signature)
	bs := []J{}
	for _, b := range f.Blocks {
		bo := J{"index": b.Index, "comment": b.Comment}
		pr := []int{}
		for _, p := range b.Preds {
			pr = append(pr, p.Index)
		}
		su := []int{}
		for _, s := range b.Succs {
			su = append(su, s.Index)
		}
		bo["preds"] = pr
		bo["succs"] = su
		is := []J{}
		for _, in := range b.Instrs {
			if j := instr(in); j != nil {
				is = append(is, j)
			}
		}
		bo["instrs"] = is
		bs = append(bs, bo)
	}
	o["blocks"] = bs
	if f.Recover != nil {
		o["recover"] = f.Recover.Index
	}
	return o
}

func main() {
	dir := flag.String("dir", "/repo", "module directory")
	out := flag.String("o", "-", "output file")
	tags := flag.String("tags", "verif", "build tags")
	flag.Parse()
	pats := flag.Args()
	if len(pats) == 0 {
		pats = []string{"./..."}
	}
	cfg := &packages.Config{Mode: packages.LoadAllSyntax, Dir: *dir, BuildFlags: []string{"-tags", *tags}}
	pkgs, err := packages.Load(cfg, pats...)
	if err != nil {
		fmt.Fprintln(os.Stderr, "load:", err)
		os.Exit(2)
	}
	nerr := 0
	packages.Visit(pkgs, nil, func(p *packages.Package) {
		for _, e := range p.Errors {
			fmt.Fprintln(os.Stderr, "pkg error:", e)
			nerr++
		}
	})
	if nerr > 0 {
		os.Exit(2)
	}
	prog, spkgs := ssautil.AllPackages(pkgs, ssa.GlobalDebug)
	prog.Build()
	fset = prog.Fset
	want := map[*ssa.Package]bool{}
	for _, sp := range spkgs {
		if sp != nil {
			want[sp] = true
		}
	}
	all := ssautil.AllFunctions(prog)
	funcs := J{}
	var keys []string
	fm := map[string]*ssa.Function{}
	for f := range all {
		var sp *ssa.Package
		if f.Pkg != nil {
			sp = f.Pkg
		} else if f.Parent() != nil {
			p := f
			for p.Parent() != nil {
				p = p.Parent()
			}
			sp = p.Pkg
		}
		if sp == nil || !strings.HasPrefix(sp.Pkg.Path(), strings.TrimSuffix(modPrefix, "/")) {
			continue
		}
		if f.Synthetic != "" && f.Synthetic != "package initializer" {
			continue // wrappers, bound method thunks
		}
		k := fkey(f)
		keys = append(keys, k)
		fm[k] = f
	}
	sort.Strings(keys)
	for _, k := range keys {
		funcs[k] = exportFunc(fm[k])
	}
	pk := J{}
	packages.Visit(pkgs, nil, func(p *packages.Package) {
		if !strings.HasPrefix(p.PkgPath, strings.TrimSuffix(modPrefix, "/")) {
			return
		}
		sp := prog.Package(p.Types)
		if sp == nil {
			return
		}
		gl := []J{}
		var names []string
		for n, m := range sp.Members {
			if _, ok := m.(*ssa.Global); ok {
				names = append(names, n)
			}
		}
		sort.Strings(names)
		for _, n := range names {
			g := sp.Members[n].(*ssa.Global)
			gl = append(gl, J{"name": n, "type": tkey(g.Type()), "pos": pos(g.Pos())})
		}
		cs := []J{}
		scope := p.Types.Scope()
		cnames := scope.Names()
		sort.Strings(cnames)
		for _, n := range cnames {
			if c, ok := scope.Lookup(n).(*types.Const); ok {
				e := J{"name": n, "type": tkey(c.Type())}
				switch c.Val().Kind() {
				case constant.Int:
					e["vk"] = "int"
					e["v"] = c.Val().ExactString()
				case constant.Float:
					e["vk"] = "float"
					e["v"] = c.Val().ExactString()
				case constant.String:
					e["vk"] = "string"
					e["v"] = constant.StringVal(c.Val())
				case constant.Bool:
					e["vk"] = "bool"
					e["v"] = constant.BoolVal(c.Val())
				default:
					continue
				}
				cs = append(cs, e)
			}
		}
		files := []string{}
		for _, f := range p.GoFiles {
			files = append(files, strings.TrimPrefix(f, "/repo/"))
		}
		pk[short(p.PkgPath)] = J{"name": p.Name, "globals": gl, "files": files, "consts": cs}
	})
	doc := J{"funcs": funcs, "types": typeTable, "packages": pk}
	w := os.Stdout
	if *out != "-" {
		w, err = os.Create(*out)
		if err != nil {
			fmt.Fprintln(os.Stderr, err)
			os.Exit(2)
		}
		defer w.Close()
	}
	enc := json.NewEncoder(w)
	if err := enc.Encode(doc); err != nil {
		fmt.Fprintln(os.Stderr, err)
		os.Exit(2)
	}
}
