"""Channels, goroutines, wait groups, range/next.

Sequential reading of the concurrency primitives (DESIGN.md section 1.2):
  * a receive havocs a well-typed message and requires a non-nil channel (a receive on a nil channel blocks
    for ever); `v, ok := <-ch` / `range ch` gets an arbitrary `ok`;
  * a send requires a non-nil, not yet closed channel and counts in the ghost `ch_sent`;
  * close requires non-nil and not closed, sets the ghost flag;
  * `go f(...)` does not execute f (f is verified on its own worker contract); whatever f may write is havocked;
  * map iteration is demonic: every Next picks an arbitrary key not visited before (ghost set per Range).
Ghost integers: ch_sent, ch_recv, ch_closed (count of close calls), wg_add, wg_done, wg_wait, go_count.
"""
import z3
from .world import OutOfSubset, LValue, FuncVal

I = z3.IntSort()
B = z3.BoolSort()

GHOST_INTS = ('ch_sent', 'ch_recv', 'ch_closed', 'wg_add', 'wg_done', 'wg_wait', 'go_count')


def gk(name):
    return ('ghost', name, I)


def gk_arr(name):
    return ('ghost', name, z3.ArraySort(I, I), 'chan')


def bump(X, name, by=1):
    X.heap.set(gk(name), X.heap.get(gk(name)) + by)


def bump_at(X, name, ch):
    k = gk_arr(name)
    a = X.heap.get(k)
    X.heap.set(k, z3.Store(a, ch, a[ch] + 1))


def chan_modset(V, x):
    op = x.get('op')
    if op == 'Go':
        return {gk('go_count')}
    if op == 'Send':
        return {gk('ch_sent'), gk_arr('sent_on')}
    if op == 'UnOp':
        return {gk('ch_recv'), gk_arr('recv_on')}
    if op in ('Call', 'Defer'):      # close(ch)
        return {gk('ch_closed'), gk_arr('closed_on')}
    return {gk(n) for n in ('ch_sent', 'ch_recv', 'ch_closed')} | {gk_arr('sent_on'), gk_arr('closed_on'), gk_arr('recv_on')}


def recv(X, ins):
    w = X.w
    ch = X.term(ins['x'])
    X.oblige('nilchan', ch != 0, ins.get('pos', ''), text='receive from a nil channel blocks forever')
    uk, e = w.prog.under(ins['x']['type'])
    el = e['elem']
    msg = w.fresh('msg', w.sort(el))
    X.assume_typed(msg, el)
    c = X.contract if X.top else None
    if c is not None and c.get('recvs'):
        from .speceval import SpecEval, SV
        from .spec import SpecError
        names = X.resolve_names(X.block, upto_idx=X.cur_idx)
        env = X.spec_env(names)
        env['msg'] = SV(msg, el)
        for (chname, lab, ast, txt) in c['recvs']:
            ev = SpecEval(X.V, X.pkg, env, X.heap, old=X.top_entry_heap())
            try:
                tgt = ev.ev(('id', chname)).t
                X.hyp(z3.Implies(ch == tgt, ev.boolean(ast)))
                X.V.notes.append('channel message invariant assumed in %s: %s' % (X.V.shown, txt))
            except SpecError as ex:
                raise OutOfSubset('recv clause in %s: %s' % (X.fnkey, ex))
    if ins.get('commaok'):
        ok = w.fresh('recvok', B)
        X.heap.set(gk('ch_recv'), X.heap.get(gk('ch_recv')) + z3.If(ok, 1, 0))
        k = gk_arr('recv_on')
        a = X.heap.get(k)
        X.heap.set(k, z3.Store(a, ch, a[ch] + z3.If(ok, 1, 0)))
        X.env[ins['name']] = [z3.If(ok, msg, w.zero(el)), ok]
    else:
        bump(X, 'ch_recv')
        bump_at(X, 'recv_on', ch)
        X.env[ins['name']] = msg


def do_send(X, ins):
    ch = X.term(ins['chan'])
    v = X.val(ins['x'])
    X.oblige('nilchan', ch != 0, ins.get('pos', ''), text='send on a nil channel blocks forever')
    X.oblige('sendclosed', X.heap.get(gk_arr('closed_on'))[ch] == 0, ins.get('pos', ''), text='send on a closed channel panics')
    bump(X, 'ch_sent')
    bump_at(X, 'sent_on', ch)
    c = X.contract if X.top else None
    if c is not None and c.get('sends'):
        from .speceval import SpecEval, SV
        from .spec import SpecError
        names = X.resolve_names(X.block, upto_idx=X.cur_idx)
        env = X.spec_env(names)
        uk, e = X.w.prog.under(ins['chan']['type'])
        if z3.is_expr(v):
            env['msg'] = SV(v, e['elem'])
        for (chname, lab, ast, txt) in c['sends']:
            ev = SpecEval(X.V, X.pkg, env, X.heap, old=X.top_entry_heap())
            # inside a loop: atHead / freshiter / lold refer to the innermost enclosing loop's current iteration
            best_ = None
            for h_, l_ in X.cfg['loops'].items():
                if X.block in l_['body'] and h_ in getattr(X, 'loopstate', {}) and hasattr(X.loopstate[h_], 'head_heap'):
                    if best_ is None or len(l_['body']) < len(X.cfg['loops'][best_]['body']):
                        best_ = h_
            if best_ is not None:
                st_ = X.loopstate[best_]
                ev.head = (st_.head_heap, st_.env_head)
                ev.loop_old = (st_.entry_heap, st_.env_entry)
            try:
                tgt = ev.ev(('id', chname)).t
                X.oblige('send', z3.Implies(ch == tgt, ev.boolean(ast)), ins.get('pos', ''), label='%s.%s' % (chname, lab or '0'), text=txt)
            except SpecError as ex:
                raise OutOfSubset('send clause in %s: %s' % (X.fnkey, ex))


def do_close(X, ins):
    ch = X.term(ins['args'][0])
    X.oblige('nilchan', ch != 0, ins.get('pos', ''), text='close of nil channel panics')
    X.oblige('closeclosed', X.heap.get(gk_arr('closed_on'))[ch] == 0, ins.get('pos', ''), text='close of closed channel panics')
    bump(X, 'ch_closed')
    bump_at(X, 'closed_on', ch)


def do_makechan(X, ins):
    r = X.alloc_id('chan')
    for nm in ('sent_on', 'closed_on', 'recv_on'):
        k = gk_arr(nm)
        X.heap.set(k, z3.Store(X.heap.get(k), r, z3.IntVal(0)))
    X.env[ins['name']] = r


def do_go(X, ins):
    """spawn: the body is not executed here; its possible writes are havocked"""
    from .modset import call_modset
    bump(X, 'go_count')
    from . import modset as MS
    from .modset import func_modset, find_def
    from .calls import alloc_key_of
    mod, confined = go_effects(X.V, X.fn, ins, [X.fnkey])
    fr = z3.Const('go_r', I)
    for key in sorted(confined, key=str):
        ak = alloc_key_of(key)
        if ak is None or key[0] not in ('f', 'el', 'cell', 'mdom', 'mval', 'msize', 'ghost'):
            mod.add(key)
            continue
        # written only inside objects the goroutine allocates itself: everything allocated so far keeps its value
        nv = X.V.fresh_heap_const(key, X.tag + 'go')
        oldv = X.heap.get(key)
        X.hyp(z3.ForAll([fr], z3.Implies(fr <= X.heap.get(ak), nv[fr] == oldv[fr]), patterns=[nv[fr]]))
        X.heap.set(key, nv)
    for key in sorted(mod, key=str):
        nv = X.V.fresh_heap_const(key, X.tag + 'go')
        if key[0] == 'alloc':
            X.hyp(nv >= X.heap.get(key))
        X.heap.set(key, nv)
    X.V.notes.append('effects of spawned goroutines on the spawning function after the go statement are havocked once, at the spawn point')


def go_effects(V, fn, ins, stack):
    """(keys the spawned function may write in existing objects, keys it writes only inside objects it allocates)"""
    from . import modset as MS
    saved_sink = MS.ALLOC_SINK
    MS.ALLOC_SINK = set()
    try:
        mod = do_go_modset(V, fn, ins, stack)
        confined = set(MS.ALLOC_SINK) - mod
    finally:
        MS.ALLOC_SINK = saved_sink
    return mod, confined


def do_go_modset(V, fn, ins, stack):
    from .modset import call_modset
    from .modset import func_modset, find_def

    class _X:
        pass
    X = _X()
    X.V = V
    X.fn = fn
    X.fnkey = stack[0]
    X.w = V.world
    mod = call_modset(X.V, X.fn, ins, list(stack))
    # a spawned function whose contract has no assigns clause: take what its body may write
    key = ins.get('static')
    if key is None and ins['callee']['k'] == 'reg':
        d = find_def(X.fn, ins['callee']['name'])
        if d is not None and d['op'] == 'MakeClosure':
            key = d['fn']
    c = X.V.contracts['funcs'].get(key) if key else None
    if c is not None and c.get('assigns') is None and key in X.w.prog.funcs:
        saved = X.V.contracts['funcs'].pop(key)
        try:
            mod |= func_modset(X.V, key, [X.fnkey, key])
        finally:
            X.V.contracts['funcs'][key] = saved
    return mod


# ---------------------------------------------------------------------- range / next
def do_range(X, ins):
    w = X.w
    xo = ins['x']
    uk, e = w.prog.under(xo['type'])
    if e['kind'] == 'map':
        m = X.term(xo)
        ks = w.sort(e['key'])
        X.range_count = getattr(X, 'range_count', 0) + 1
        key = ('ghost', 'visited_%d' % X.range_count, z3.ArraySort(ks, B))
        X.heap.set(key, z3.K(ks, z3.BoolVal(False)))
        X.env[ins['name']] = ('maprange', m, xo['type'], key)
        X.V.range_keys = getattr(X.V, 'range_keys', {})
        X.V.range_keys[X.range_count] = key
        return
    if e['kind'] == 'basic':
        s = X.term(xo)
        key = ('ghost', 'strpos_%s' % ins['name'], I)
        X.heap.set(key, z3.IntVal(0))
        X.V.range_keys = getattr(X.V, 'range_keys', {})
        X.V.range_keys['s' + ins['name']] = key
        X.env[ins['name']] = ('strrange', s, key)
        return
    raise OutOfSubset('range over ' + xo['type'])


def do_next(X, ins):
    w = X.w
    it = X.val(ins['iter'])
    if not isinstance(it, tuple):
        raise OutOfSubset('next on unknown iterator')
    if it[0] == 'maprange':
        _, m, mt, key = it
        uk, e = w.prog.under(mt)
        ks, vs = w.sort(e['key']), w.sort(e['elem'])
        dom = X.heap.get(('mdom', mt))
        val = X.heap.get(('mval', mt))
        visited = X.heap.get(key)
        ok = w.fresh('nextok', B)
        k = w.fresh('nextkey', ks)
        kq = z3.Const('nk_q', ks)
        # ok: some unvisited key of the domain is delivered; !ok: every key of the domain has been visited
        X.hyp(z3.Implies(ok, z3.And(m != 0, dom[m][k], z3.Not(visited[k]))))
        X.hyp(z3.Implies(z3.Not(ok), z3.Or(m == 0, z3.ForAll([kq], z3.Implies(dom[m][kq], visited[kq]), patterns=[dom[m][kq]]))))
        X.heap.set(key, z3.If(ok, z3.Store(visited, k, z3.BoolVal(True)), visited))
        v = w.fresh('nextval', vs)
        X.hyp(z3.Implies(ok, v == val[m][k]))
        X.assume_typed(v, e['elem'])
        X.assume_typed(k, e['key'])
        X.env[ins['name']] = [ok, k, v]
        X.V.notes.append('map iteration order is demonic (every order is considered)')
        return
    if it[0] == 'strrange':
        _, s, key = it
        pos = X.heap.get(key)
        n = w.strlen(s)
        ok = pos < n
        width = w.fresh('runew', I)
        X.hyp(z3.And(width >= 1, width <= 4, z3.Implies(ok, pos + width <= n)))
        r = w.fresh('rune', I)
        X.hyp(z3.And(r >= 0, r <= 0x10FFFF))
        X.heap.set(key, z3.If(ok, pos + width, pos))
        X.env[ins['name']] = [ok, pos, r]
        return
    raise OutOfSubset('next')


def range_modset(V, fn, x):
    out = set()
    return out


# ---------------------------------------------------------------------- sync
def lock_event(X, ins, argv):
    """ghost lock log: count of lock/unlock events per kind, used by C11 contracts"""
    name = ins['static'].split(').')[-1]
    key = ('ghost', 'lock_' + name, z3.IntSort())
    X.heap.set(key, X.heap.get(key) + 1)


def wg_event(X, ins, argv):
    name = ins['static'].split(').')[-1]
    if name == 'Add':
        bump(X, 'wg_add', argv[1])
    elif name == 'Done':
        bump(X, 'wg_done')
    elif name == 'Wait':
        bump(X, 'wg_wait')
