"""Channels, goroutines, range/next (map iteration is demonic). Filled in incrementally."""
import z3
from .world import OutOfSubset


def recv(X, ins):
    raise OutOfSubset('channel receive')


def do_range(X, ins):
    raise OutOfSubset('range over map/string')


def do_next(X, ins):
    raise OutOfSubset('next')


def do_go(X, ins):
    raise OutOfSubset('go statement')


def do_send(X, ins):
    raise OutOfSubset('channel send')


def do_makechan(X, ins):
    raise OutOfSubset('make(chan)')


def do_close(X, ins):
    raise OutOfSubset('close(chan)')


def lock_event(X, ins, argv):
    """ghost lock log: count of lock/unlock events per kind, used by C11 contracts"""
    name = ins['static'].split(').')[-1]
    key = ('ghost', 'lock_' + name, z3.IntSort())
    X.heap.set(key, X.heap.get(key) + 1)
