"""Must-fail corpus (DESIGN.md section 8).

Every entry is a change to evolbioinfo/gotree that compiles, passes the repository's test suite and breaks one
property: the seeded changes of /verif/seeded/<id>/patch.diff and the reverts of the `fix:` commits listed in
known_findings.txt (/verif/selftest/reverts/<sha>.diff).  For each entry a scratch worktree of the repository under
check is created outside /repo and /verif, the change applied, the *quick* check of the property run against it
(VERIF_REPO), and the worktree removed.  An entry is detected when that run exits 1 with a VIOLATION line; for
reverts the obligation named in known_findings.txt must be among the failed ones.

The corpus guards the engine, not the repository: a missed entry never produces a VIOLATION line.
"""
import json
import os
import re
import shutil
import subprocess
import sys
import tempfile
import threading

_GIT = threading.Lock()

VERIF = os.path.dirname(os.path.dirname(os.path.dirname(os.path.dirname(os.path.abspath(__file__)))))
REPO = os.environ.get('VERIF_REPO', '/repo')


def corpus(pid=None):
    out = []
    sd = os.path.join(VERIF, 'seeded')
    for d in sorted(os.listdir(sd)):
        p = os.path.join(sd, d, 'patch.diff')
        if not os.path.isfile(p):
            continue
        try:
            prop = json.load(open(os.path.join(sd, d, 'meta.json'))).get('property', d[:3])
        except Exception:
            prop = d[:3]
        if pid is None or prop == pid:
            out.append({'name': 'seed-' + d, 'property': prop, 'kind': 'seeded change', 'patch': p, 'expect': []})
    md = os.path.join(VERIF, 'selftest', 'manual')
    if os.path.isdir(md):
        for f in sorted(os.listdir(md)):
            if f.endswith('.diff'):
                try:
                    prop = open(os.path.join(md, f[:-5] + '.prop')).read().strip()
                except OSError:
                    continue
                if pid is None or prop == pid:
                    out.append({'name': 'manual-' + f[:-5], 'property': prop, 'kind': 'hand-made change', 'patch': os.path.join(md, f), 'expect': []})
    for ln in open(os.path.join(VERIF, 'known_findings.txt')):
        if not ln.startswith('fixed:'):
            continue
        m = re.search(r'property=(\S+) commit=(\S+) obligation=(\S+)', ln)
        if not m:
            continue
        prop, sha, obl = m.groups()
        if pid is not None and prop != pid:
            continue
        p = os.path.join(VERIF, 'selftest', 'reverts', sha + '.diff')
        if os.path.isfile(p):
            out.append({'name': 'revert-%s-%s' % (prop, sha), 'property': prop, 'kind': 'revert of fix ' + sha, 'patch': p, 'expect': obl.split(',')})
    return out


_DIFF = None


def repo_diff(env):
    """the uncommitted part of the tree under check, taken once per corpus run (so that editing /repo while a run is
    in progress cannot leak half-written contracts into later entries)"""
    global _DIFF
    if _DIFF is None:
        _DIFF = subprocess.run(['git', '-C', REPO, 'diff', 'HEAD'], capture_output=True, text=True, env=env).stdout
    return _DIFF


def run_entry(e, jobs=None, keep_out=None):
    env = dict(os.environ, GOFLAGS='-mod=mod', GOPROXY='off', GOSUMDB='off', GOTOOLCHAIN='local')
    base = tempfile.mkdtemp(prefix='govc-selftest-', dir=os.environ.get('GOVC_TMP', '/var/tmp'))
    wt = os.path.join(base, 'repo')
    res = dict(e)
    res['patch'] = os.path.relpath(e['patch'], VERIF)
    try:
        # copy of the working tree under check (tracked files + contract files), not of a commit
        with _GIT:
            subprocess.run(['git', '-C', REPO, 'worktree', 'add', '--detach', '-f', wt, 'HEAD'], capture_output=True, text=True, env=env, check=True)
        d = repo_diff(env)
        if d.strip():
            subprocess.run(['git', '-C', wt, 'apply'], input=d, text=True, env=env)
        a = subprocess.run(['git', '-C', wt, 'apply', e['patch']], capture_output=True, text=True, env=env)
        if a.returncode != 0:
            res.update({'status': 'stale', 'detail': a.stderr[-400:]})
            return res
        out = os.path.join(base, 'out')
        env2 = dict(env, VERIF_REPO=wt, GOVC_SCRATCH_OUT=out, GOVC_NO_SELFTEST='1')
        if jobs:
            env2['GOVC_JOBS'] = str(jobs)
        p = subprocess.run([os.path.join(VERIF, 'check'), e['property'], 'quick'], capture_output=True, text=True, env=env2, cwd=VERIF)
        failed = re.findall(r'^  undischarged: (.*)$', p.stdout, re.M)
        vio = re.findall(r'^VIOLATION .*$', p.stdout, re.M)
        replayed = [v for v in vio if not v.endswith('no-failing-input-found')]
        res.update({'exit': p.returncode, 'failed_obligations': failed, 'violations': len(vio), 'replayed_on_real_code': len(replayed)})
        hit = [x for x in e['expect'] if any(f == x or f.startswith(x + '[') for f in failed)]
        if p.returncode == 1 and vio and (not e['expect'] or hit):
            res['status'] = 'detected'
        elif p.returncode == 1 and vio:
            res['status'] = 'detected-by-other-obligation'
        else:
            res['status'] = 'missed'
            res['detail'] = (p.stdout + p.stderr)[-600:]
        if keep_out:
            os.makedirs(keep_out, exist_ok=True)
            rd = os.path.join(out, 'replays', e['property'])
            if os.path.isdir(rd):
                dst = os.path.join(keep_out, e['name'])
                shutil.rmtree(dst, ignore_errors=True)
                shutil.copytree(rd, dst)
        return res
    finally:
        with _GIT:
            subprocess.run(['git', '-C', REPO, 'worktree', 'remove', '--force', wt], capture_output=True, text=True, env=env)
            subprocess.run(['git', '-C', REPO, 'worktree', 'prune'], capture_output=True, text=True, env=env)
        shutil.rmtree(base, ignore_errors=True)


def run(pid=None, parallel=4):
    from concurrent.futures import ThreadPoolExecutor
    es = corpus(pid)
    repo_diff(dict(os.environ))
    jobs = max(2, 16 // max(1, min(parallel, len(es) or 1)))
    with ThreadPoolExecutor(max_workers=parallel) as ex:
        return list(ex.map(lambda e: run_entry(e, jobs), es))


def main(argv):
    if argv and argv[0] == '--only':
        # tools/selftest.sh --only seed-C08a,seed-C08b   (experiments; RESULTS files are not rewritten)
        from concurrent.futures import ThreadPoolExecutor
        names = set(argv[1].split(','))
        es = [e for e in corpus() if e['name'] in names]
        with ThreadPoolExecutor(max_workers=4) as ex:
            rs = list(ex.map(lambda e: run_entry(e, max(2, 16 // max(1, min(4, len(es))))), es))
        for r in rs:
            print('%-20s %-9s %s' % (r['name'], r['status'], ', '.join(r.get('failed_obligations', [])[:4])))
            if r['status'] == 'missed':
                print('    exit=%s detail: %s' % (r.get('exit'), (r.get('detail') or '')[-400:].replace('\n', ' | ')))
        return 0
    merge = None
    if argv and argv[0] == '--merge':
        # tools/selftest.sh --merge revert-C02-8a37c27,seed-C01a : run these entries only and replace / append their
        # rows in RESULTS.{json,md} of the last full run (entries added after that run)
        from concurrent.futures import ThreadPoolExecutor
        names = set(argv[1].split(','))
        es = [e for e in corpus() if e['name'] in names]
        repo_diff(dict(os.environ))
        with ThreadPoolExecutor(max_workers=4) as ex:
            new = list(ex.map(lambda e: run_entry(e, max(2, 16 // max(1, min(4, len(es))))), es))
        old = json.load(open(os.path.join(VERIF, 'selftest', 'RESULTS.json')))
        byname = {r['name']: r for r in new}
        merge = [byname.pop(r['name'], r) for r in old] + [r for r in new if r['name'] in byname]
        argv = []
    pid = argv[0] if argv else None
    rs = merge if merge is not None else run(pid)
    ok = True
    lines = ['| entry | property | kind | status | failed obligations (first 4) | replayed |', '|---|---|---|---|---|---|']
    for r in rs:
        print('%-28s %-9s %s' % (r['name'], r['status'], ', '.join(r.get('failed_obligations', [])[:3])))
        lines.append('| %s | %s | %s | %s | %s | %s |' % (r['name'], r['property'], r['kind'], r['status'],
                                                       '<br>'.join('`%s`' % x for x in r.get('failed_obligations', [])[:4]), r.get('replayed_on_real_code', 0)))
        if not r['status'].startswith('detected') and r['status'] != 'stale':
            ok = False
    if pid is None:
        os.makedirs(os.path.join(VERIF, 'selftest'), exist_ok=True)
        json.dump(rs, open(os.path.join(VERIF, 'selftest', 'RESULTS.json'), 'w'), indent=1)
        open(os.path.join(VERIF, 'selftest', 'RESULTS.md'), 'w').write(
            '# Must-fail corpus: last full run (`tools/selftest.sh`)\n\nEach entry is applied to a scratch worktree of /repo and the quick check of its property is run against it.\n\n' + '\n'.join(lines) + '\n')
    return 0 if ok else 2


if __name__ == '__main__':
    sys.exit(main(sys.argv[1:]))
