"""Heap state (Burstall-Bornat component model) and the per-function verification collector."""
import z3
from .world import OutOfSubset, LValue


class Heap:
    def __init__(self, V, d=None):
        self.V = V
        self.d = dict(d) if d else {}

    def get(self, key):
        if key in self.d:
            return self.d[key]
        return self.V.h0get(key)

    def set(self, key, val):
        self.d[key] = val

    def copy(self):
        return Heap(self.V, self.d)


def keyname(key):
    return '_'.join(str(x) for x in key).replace(' ', '').replace('*', 'p').replace('[]', 'sl').replace('/', '.')


class Obl:
    def __init__(self, name, kind, goal, reach, block, upto, pos, text=''):
        self.name = name
        self.kind = kind
        self.goal = goal
        self.reach = reach
        self.block = block
        self.upto = upto
        self.pos = pos
        self.text = text


class Verifier:
    """collects hypotheses and obligations for one top-level function"""

    def __init__(self, world, contracts, externals, fnkey):
        self.world = world
        self.contracts = contracts
        self.externals = externals
        self.fnkey = fnkey
        self.shown = world.prog.shown(fnkey) if hasattr(world.prog, 'shown') else fnkey
        self.hyps = []      # (formula, outer_block)
        self.obls = []
        self.h0 = {}
        self.counters = {}
        self.cur_block = None
        self.anc = None
        self.notes = []     # assumptions used (strings)
        self.ext_globals = {}
        self.global_hyps = []

    # -------------------------------------------------------------- heap sorts
    def heap_sort(self, key):
        w = self.world
        I = z3.IntSort()
        k = key[0]
        if k == 'f':
            i, f = w.field_index(key[1], key[2])
            return z3.ArraySort(I, w.sort(f['type']))
        if k == 'cell':
            return z3.ArraySort(I, w.sort(key[1]))
        if k == 'el':
            return z3.ArraySort(I, z3.ArraySort(I, w.sort(key[1])))
        if k in ('mdom', 'mval', 'msize'):
            uk, e = w.prog.under(key[1])
            ks = w.sort(e['key'])
            if k == 'mdom':
                return z3.ArraySort(I, z3.ArraySort(ks, z3.BoolSort()))
            if k == 'mval':
                return z3.ArraySort(I, z3.ArraySort(ks, w.sort(e['elem'])))
            return z3.ArraySort(I, I)
        if k == 'alloc':
            return I
        if k == 'g':
            if (key[1], key[2]) in self.ext_globals:
                return w.sort(self.ext_globals[(key[1], key[2])])
            for g in w.prog.packages[key[1]]['globals']:
                if g['name'] == key[2]:
                    return w.sort(w.prog.types[g['type']]['elem'])
            raise OutOfSubset('unknown global %s.%s' % (key[1], key[2]))
        if k == 'ghost':
            return key[2]
        raise OutOfSubset('heap key ' + str(key))

    def global_type(self, pkg, name):
        if (pkg, name) in self.ext_globals:
            return self.ext_globals[(pkg, name)]
        for g in self.world.prog.packages[pkg]['globals']:
            if g['name'] == name:
                return self.world.prog.types[g['type']]['elem']
        raise OutOfSubset('unknown global %s.%s' % (pkg, name))

    def h0get(self, key):
        if key not in self.h0:
            s = self.heap_sort(key)
            self.h0[key] = z3.Const('H0_' + keyname(key), s)
            if key[0] == 'alloc':
                self.global_hyps.append(self.h0[key] >= 0)
            if key[0] in ('f', 'cell', 'el'):
                from .symex import heap_typing_fact
                try:
                    f_ = heap_typing_fact(self, Heap(self), key, self.h0[key])
                except Exception:
                    f_ = None
                if f_ is not None:
                    self.global_hyps.append(f_)
            if key[0] == 'g':
                c = getattr(self.world.prog, 'const_globals', {}).get((key[1], key[2]))
                if c is not None:
                    try:
                        self.global_hyps.append(self.h0[key] == self.world.const(c))
                        self.notes.append('package variable %s.%s is never assigned after its constant initialisation: treated as that constant' % (key[1], key[2]))
                    except Exception:
                        pass
        return self.h0[key]

    def fresh_heap_const(self, key, tag):
        return self.world.fresh('H_%s_%s' % (tag, keyname(key)), self.heap_sort(key))

    # -------------------------------------------------------------- collection
    def add_hyp(self, f):
        if f is None:
            return
        if z3.is_true(f):
            return
        self.hyps.append((f, self.cur_block))

    def add_obl(self, kind, goal, reach, pos='', label=None, text=''):
        base = kind if label is None else '%s.%s' % (kind, label)
        n = self.counters.get(base, 0)
        self.counters[base] = n + 1
        if label is None:
            name = '%s#%s[%d]' % (self.shown, kind, n)
        else:
            name = '%s#%s.%s' % (self.shown, kind, label) + ('' if n == 0 else '[%d]' % n)
        self.obls.append(Obl(name, kind, goal, reach, self.cur_block, len(self.hyps), pos, text))

    def hyps_for(self, ob):
        anc = self.anc
        out = list(self.global_hyps)
        for (f, b) in self.hyps[:ob.upto]:
            if b is None or ob.block is None or b == ob.block or b in anc.get(ob.block, ()):
                out.append(f)
        return out
