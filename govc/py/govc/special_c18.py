"""C18 (determinism): a sufficient, purely structural condition for "the result does not depend on Go's randomised map
iteration order": the function does not iterate over a map at all.  For every function listed in
PROPS['C18']['ordered_functions'] one obligation  <func>#determinism.no_map_iteration  is generated from the SSA of the
current tree; it is discharged (trivially, by the solver) exactly when the function contains no `range` over a map.
Functions that do range over a map are handled by contracts with a demonic iteration order instead (Rename, ALL_AMINO
expansion, CompareTipIndexes, UpdateTipIndex)."""


def generate(prog, contracts, P, tier, results, funcs_report):
    out = []
    for key0 in P.get('ordered_functions', []):
        key = prog.resolve(key0)
        fn = prog.funcs.get(key)
        if fn is None or not fn['blocks']:
            results.append({'name': key0 + '#generable', 'verdict': 'out_of_subset', 'reason': 'function not found in /repo (renamed or removed)', 'time': 0})
            continue
        sites = []
        for b in fn['blocks']:
            for i in b['instrs']:
                if i['op'] == 'Range':
                    ty = i['x'].get('type', '')
                    e = prog.types.get(ty) or {}
                    u = e
                    seen = 0
                    while u.get('kind') == 'named' and seen < 5:
                        u = prog.types.get(u.get('under'), {})
                        seen += 1
                    if u.get('kind') == 'map' or ty.startswith('map['):
                        sites.append(i.get('pos', ''))
        funcs_report.append({'function': key0, 'file': fn.get('pos', ''), 'status': 'scanned for map iteration', 'obligations': 1})
        name = '%s#determinism.no_map_iteration' % key0
        if sites:
            smt = '(assert true)\n(check-sat)\n'
            text = 'iterates over a map at %s: the order of the results may depend on the randomised iteration order' % ', '.join(sites)
        else:
            smt = '(assert false)\n(check-sat)\n'
            text = 'no range over a map in the body'
        out.append((name, smt, text, None))
    return out
