"""C18 (determinism): a sufficient, purely structural condition for "the result does not depend on Go's randomised map
iteration order".

For every function listed in PROPS['C18']['ordered_functions'], and for every function of the packages listed in
PROPS['C18']['ordered_packages'] (the commands: everything they do ends up in the output), one obligation
<func>#determinism.no_map_iteration is generated from the SSA of the current tree.  It is discharged (trivially, by the
solver) exactly when every `range` over a map in the function is an instance of the *collect-then-sort idiom*:

    for k := range m { keys = append(keys, k) }      the body does nothing but append the key to one slice
    sort.Strings(keys)                                 and the first thing done after the loop is to sort that slice

(the sorted list is a function of the key set, whatever the iteration order was; sort.* is trusted to sort).  Any other
range over a map fails the obligation.  Functions that range over a map in another way and are nevertheless
order-independent are handled by contracts with a demonic iteration order instead (Rename, the ALL_AMINO expansion,
CompareTipIndexes, the acr alphabet, TipBag.Tips) and are not listed here."""
import re
from .symex import cfg_of

BODY_OPS = {'Next', 'Extract', 'Phi', 'If', 'Jump', 'DebugRef', 'UnOp', 'Store', 'Call', 'Slice', 'Alloc', 'IndexAddr'}
SORTS = ('sort.Strings', 'sort.Ints', 'sort.Float64s', 'sort.Slice', 'sort.SliceStable')


def is_map(prog, ty):
    u = prog.types.get(ty) or {}
    seen = 0
    while u.get('kind') == 'named' and seen < 5:
        u = prog.types.get(u.get('under'), {})
        seen += 1
    return u.get('kind') == 'map' or ty.startswith('map[')


def collect_then_sort(prog, key, fn, rng):
    """is the map range `rng` (a Range instruction) an instance of the idiom?  returns (ok, reason)"""
    cfg = cfg_of(prog, key)
    # the loop whose head calls Next on this iterator
    loop = None
    for h, l in cfg['loops'].items():
        for x in fn['blocks'][h]['instrs']:
            if x['op'] == 'Next' and x['iter'].get('name') == rng['name']:
                loop = (h, l)
    if loop is None:
        return False, 'no loop found for the iterator'
    h, l = loop
    # the clearing idiom: `for k := range m { delete(m, k) }` leaves m empty whatever the order
    calls_ = [x for b in l['body'] for x in fn['blocks'][b]['instrs'] if x['op'] in ('Call', 'Defer', 'Go')]
    if len(calls_) == 1 and (calls_[0].get('callee') or {}).get('k') == 'builtin' and calls_[0]['callee'].get('name') == 'delete':
        ops_ = {x['op'] for b in l['body'] for x in fn['blocks'][b]['instrs']}
        keys_ = {x['name'] for b in l['body'] for x in fn['blocks'][b]['instrs'] if x['op'] == 'Extract' and x.get('index') == 1}
        a_ = calls_[0]['args']
        defs_ = {x.get('name'): x for bb in fn['blocks'] for x in bb['instrs'] if x.get('name')}

        def origin(r):
            # a register, or the field it was loaded from (no store happens in the body: the field keeps its value)
            d = defs_.get(r.get('name'))
            if d is not None and d['op'] == 'UnOp' and d.get('tok') == '*':
                d2 = defs_.get(d['x'].get('name'))
                if d2 is not None and d2['op'] == 'FieldAddr':
                    return ('field', d2['x'].get('name'), d2.get('field'))
            return ('reg', r.get('name'))
        if ops_ <= {'Next', 'Extract', 'If', 'Jump', 'Call', 'DebugRef', 'FieldAddr', 'UnOp'} and origin(a_[0]) == origin(rng['x']) and a_[1].get('name') in keys_:
            return True, 'every key is deleted from the very map being ranged over: the map ends empty whatever the order'
    appends = []
    for b in l['body']:
        for x in fn['blocks'][b]['instrs']:
            if x['op'] not in BODY_OPS:
                return False, 'the body does more than collecting keys (%s at %s)' % (x['op'], x.get('pos', ''))
            if x['op'] == 'Call':
                cal = x.get('callee') or {}
                if cal.get('k') != 'builtin' or cal.get('name') != 'append':
                    return False, 'the body calls %s' % (x.get('static') or x.get('invoke') or cal.get('name'))
                appends.append(x)
            if x['op'] == 'Store':
                # only into the one-element array built for the variadic append
                a = x['addr']
                d = None
                for b2 in l['body']:
                    for y in fn['blocks'][b2]['instrs']:
                        if y.get('name') == a.get('name'):
                            d = y
                if d is None or d['op'] != 'IndexAddr':
                    return False, 'the body stores to memory other than the argument of append'
    if len(appends) != 1:
        return False, 'the body does not consist of exactly one append'
    # the loop is left through its head only, and the first call after it sorts the collected slice
    exits = [s for s in fn['blocks'][h]['succs'] if s not in l['body']]
    for b in l['body']:
        if b != h and any(s not in l['body'] for s in fn['blocks'][b]['succs']):
            return False, 'the loop is left from inside its body'
    if len(exits) != 1:
        return False, 'no single exit'
    collected = appends[0]['args'][0].get('name')       # the phi carrying the slice
    for x in fn['blocks'][exits[0]]['instrs']:
        if x['op'] == 'Call':
            if x.get('static') in SORTS:
                a0 = x['args'][0]
                nm = a0.get('name')
                if nm == collected:
                    return True, 'keys collected and sorted (%s) before any use' % x['static']
                # sort.Slice takes the slice boxed in an interface
                for y in fn['blocks'][exits[0]]['instrs']:
                    if y.get('name') == nm and y['op'] == 'MakeInterface' and y['x'].get('name') == collected:
                        return True, 'keys collected and sorted (%s) before any use' % x['static']
                return False, 'the slice sorted after the loop is not the one the keys were collected in'
            return False, 'the first call after the loop is %s, not a sort of the collected keys' % (x.get('static') or x.get('invoke') or 'a dynamic call')
    return False, 'the collected keys are not sorted right after the loop'


CLOCK_OR_SOURCE = ('time.Now', 'time.Since', 'math/rand.NewSource', 'math/rand.New', 'crypto/rand.Read', 'crypto/rand.Int', 'os.Getpid')


def clock_and_sources(prog, P, out):
    """one obligation per function of the repository's own packages that reads the clock, the process id or creates a
    random source of its own: once a seed is given nothing may depend on them.  PROPS['C18']['clock_allowed'] lists the
    functions where this is the documented behaviour (the seed default; the date lines of the support log)."""
    rev = {}
    for nm_, fk_ in prog.aliases.items():
        rev.setdefault(fk_, nm_)
    allowed = set(P.get('clock_allowed', {}))
    n = 0
    for key in sorted(prog.funcs):
        fn = prog.funcs[key]
        if not fn['blocks']:
            continue
        hits = []
        for b in fn['blocks']:
            for i in b['instrs']:
                if i['op'] in ('Call', 'Defer', 'Go') and i.get('static') in CLOCK_OR_SOURCE:
                    hits.append('%s at %s' % (i['static'], i.get('pos', '')))
        shown = rev.get(key, key)
        if not hits:
            n += 1
            continue
        name = '%s#determinism.no_clock_no_private_random_source' % shown
        if shown in allowed or key in allowed:
            continue
        out.append((name, '(assert true)\n(check-sat)\n', 'reads the clock / process id or creates a random source of its own: ' + '; '.join(hits), None))
    out.append(('repository#determinism.no_clock_no_private_random_source', '(assert false)\n(check-sat)\n',
                '%d functions scanned; the clock is read only in %s' % (n, ', '.join(sorted(allowed)) or 'no function'), None))


def generate(prog, contracts, P, tier, results, funcs_report):
    out = []
    clock_and_sources(prog, P, out)
    rev = {}
    for nm_, fk_ in prog.aliases.items():
        rev.setdefault(fk_, nm_)
    targets = []
    for key0 in P.get('ordered_functions', []):
        targets.append((key0, prog.resolve(key0), True))
    for pk in P.get('ordered_packages', []):
        for key in sorted(prog.funcs):
            bare = re.sub(r'^\(\*?', '', key)          # methods: (*pkg.T).M / (pkg.T).M
            if bare.startswith(pk + '.') and prog.funcs[key]['blocks'] and not re.match(r'^%s\.init(#\d+)?$' % re.escape(pk), key):
                shown = rev.get(key, key)
                if shown in P.get('map_order_by_contract', {}) or key in P.get('map_order_by_contract', {}):
                    continue      # decided by a contract with a demonic iteration order, verified by this same check
                if all(t[1] != key for t in targets):
                    targets.append((shown, key, False))
    for (key0, key, listed) in targets:
        fn = prog.funcs.get(key)
        if fn is None or not fn['blocks']:
            results.append({'name': key0 + '#generable', 'verdict': 'out_of_subset', 'reason': 'function not found in /repo (renamed or removed)', 'time': 0})
            continue
        bad, fine = [], []
        for b in fn['blocks']:
            for i in b['instrs']:
                if i['op'] == 'Range' and is_map(prog, i['x'].get('type', '')):
                    ok, why = collect_then_sort(prog, key, fn, i)
                    (fine if ok else bad).append('%s (%s)' % (i.get('pos', ''), why))
        if listed or bad or fine:
            funcs_report.append({'function': key0, 'file': fn.get('pos', ''), 'status': 'scanned for map iteration', 'obligations': 1})
        elif not listed:
            continue          # a command function without any map range: nothing to state
        name = '%s#determinism.no_map_iteration' % key0
        if bad:
            smt = '(assert true)\n(check-sat)\n'
            text = 'iterates over a map at %s: the order of the results may depend on the randomised iteration order' % '; '.join(bad)
        else:
            smt = '(assert false)\n(check-sat)\n'
            text = 'no range over a map in the body' if not fine else 'every range over a map only collects keys that are sorted before use: ' + '; '.join(fine)
        out.append((name, smt, text, None))
    return out
