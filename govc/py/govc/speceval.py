"""Evaluation of contract expressions to z3 terms over a heap state."""
import re
import z3
from .world import OutOfSubset, LValue
from .spec import SpecError

BASIC = {'int', 'bool', 'string', 'float64', 'uint', 'uint64', 'int64', 'rune', 'byte', 'error', 'uint8', 'int32', 'uint32'}


class SV:
    __slots__ = ('t', 'ty')

    def __init__(self, t, ty):
        self.t = t
        self.ty = ty

    def __repr__(self):
        return 'SV(%s : %s)' % (self.t, self.ty)


def resolve_type(world, name, pkg):
    types = world.prog.types
    if name in types:
        return name
    m = re.match(r'^((?:\*|\[\])*)(.+)$', name)
    pre, base = m.group(1), m.group(2)
    cands = []
    if base.startswith('map['):
        depth = 0
        for i, ch in enumerate(base):
            if ch == '[':
                depth += 1
            elif ch == ']':
                depth -= 1
                if depth == 0:
                    break
        kt = resolve_type(world, base[4:i], pkg)
        vt = resolve_type(world, base[i + 1:], pkg)
        cands.append('%smap[%s]%s' % (pre, kt, vt))
    elif '.' in base:
        cands.append(pre + base)
    else:
        cands.append(pre + pkg + '.' + base)
        cands.append(pre + base)
    for c in cands:
        if c in types:
            return c
    if '.' in base and not base.startswith('map['):
        # short import path: bitset.BitSet -> github.com/fredericlemoine/bitset.BitSet
        hits = [k for k in types if k.endswith('/' + base) and types[k]['kind'] == 'named']
        if len(hits) == 1:
            cands = [pre + hits[0]]
            if cands[0] in types:
                return cands[0]
    # synthesize pointer / slice types of known bases
    for c in cands:
        m2 = re.match(r'^((?:\*|\[\])*)(.+)$', c)
        b = m2.group(2)
        if b in types:
            cur = b
            pre2 = m2.group(1)
            # build from inside out
            parts = re.findall(r'\*|\[\]', pre2)
            for p in reversed(parts):
                nk = p + cur
                if nk not in types:
                    types[nk] = {'kind': 'ptr', 'elem': cur} if p == '*' else {'kind': 'slice', 'elem': cur}
                cur = nk
            return cur
    raise SpecError('unknown type %s (package %s)' % (name, pkg))


def _has_ite(t, depth=0):
    if depth > 40 or not z3.is_app(t):
        return False
    if t.decl().kind() == z3.Z3_OP_ITE:
        return True
    return any(_has_ite(c, depth + 1) for c in t.children())


class SpecEval:
    def __init__(self, V, pkg, env, heap, old=None, loop_old=None, results=None):
        self.V = V
        self.w = V.world
        self.pkg = pkg
        self.env = env          # name -> SV | callable(heap)->SV
        self.heap = heap
        self.old = old
        self.loop_old = loop_old  # (heap, env) at loop entry
        self.results = results
        self.head = None        # (heap, env) at the head of the current loop iteration (step clauses)
        self.bound = {}         # quantifier / let bound names (visible inside old(), lold(), atHead())
        self.latch = None       # (heap, env) at the back edge, loop-carried variables having their next-iteration values

    def sub(self, **kw):
        e = SpecEval(self.V, self.pkg, self.env, self.heap, self.old, self.loop_old, self.results)
        e.head = self.head
        e.bound = self.bound
        e.latch = self.latch
        e.in_callee = getattr(self, 'in_callee', False)
        for k, v in kw.items():
            setattr(e, k, v)
        return e

    # ------------------------------------------------------------------
    def boolean(self, ast):
        v = self.ev(ast)
        if not z3.is_bool(v.t):
            raise SpecError('boolean expected: %r' % (ast,))
        return v.t

    def load(self, lv, heap=None):
        from .symex import load_lvalue, well_typed
        h = heap or self.heap
        v = load_lvalue(self.V, h, lv)
        # contents of a variable are well typed in every state (type safety): make that available to the solver
        try:
            for f in well_typed(self.V, h, v, lv.typ):
                self.V.add_hyp(f)
        except OutOfSubset:
            pass
        return v

    def ev(self, a):
        w = self.w
        k = a[0]
        if k == 'num':
            return SV(z3.IntVal(a[1]), 'int')
        if k == 'float':
            return SV(z3.RealVal(a[1]), 'float64')
        if k == 'bool':
            return SV(z3.BoolVal(a[1]), 'bool')
        if k == 'str':
            return SV(w.strlit(a[1]), 'string')
        if k == 'nil':
            return SV(None, 'nil')
        if k == 'id':
            return self.ident(a[1])
        if k == 'field':
            return self.field(self.ev(a[1]), a[2])
        if k == 'index':
            return self.index(self.ev(a[1]), self.ev(a[2]))
        if k == 'slice':
            s = self.ev(a[1])
            lo = self.ev(a[2]).t if a[2] is not None else z3.IntVal(0)
            S = w.Slice
            hi = self.ev(a[3]).t if a[3] is not None else S.len(s.t)
            return SV(S.mk_slice(S.arr(s.t), S.off(s.t) + lo, hi - lo, S.cap(s.t) - lo), s.ty)
        if k == 'un':
            v = self.ev(a[2])
            if a[1] == '*':
                uk, e = w.prog.under(v.ty)
                if e['kind'] != 'ptr':
                    raise SpecError('dereference of non-pointer %s' % v.ty)
                el = e['elem']
                if w.prog.kind(el) == 'struct':
                    raise SpecError('dereference of a struct pointer: use field access')
                return SV(self.heap.get(('cell', el))[v.t], el)
            if a[1] == '!':
                return SV(z3.Not(v.t), 'bool')
            return SV(-v.t, v.ty)
        if k == 'bin':
            return self.binop(a[1], a[2], a[3])
        if k == 'ite':
            c = self.boolean(a[1])
            x = self.ev(a[2])
            y = self.ev(a[3])
            x, y = self.unify(x, y)
            return SV(z3.If(c, x.t, y.t), x.ty)
        if k in ('forall', 'exists'):
            return self.quant(a)
        if k == 'let':
            v = self.ev(a[2])
            env2 = dict(self.env)
            env2[a[1]] = v
            bnd = dict(self.bound)
            bnd[a[1]] = v
            return self.sub(env=env2, bound=bnd).ev(a[3])
        if k == 'call':
            return self.call(a[1], a[2])
        raise SpecError('cannot evaluate %r' % (a,))

    def ident(self, name):
        if name in self.env:
            v = self.env[name]
            if callable(v):
                v = v(self.heap)
            if isinstance(v, LValue):
                return SV(self.load(v), v.typ)
            return v
        if name == 'result' and self.results is not None and len(self.results) >= 1:
            return self.results[0]
        m = re.match(r'^result(\d+)$', name)
        if m and self.results is not None:
            return self.results[int(m.group(1))]
        d = self.V.contracts['defines'].get(name)
        if d is not None and not d[0]:
            return self.call(name, [])
        # global variable of the package
        pk = self.w.prog.packages.get(self.pkg)
        if pk:
            for g in pk['globals']:
                if g['name'] == name:
                    ty = self.w.prog.types[g['type']]['elem']
                    return SV(self.heap.get(('g', self.pkg, name)), ty)
        if pk:
            for c in pk.get('consts', []):
                if c['name'] == name:
                    return SV(self.w.const({'k': 'const', 'type': c['type'], 'vk': c['vk'], 'v': c['v']}), c['type'])
        raise SpecError('unknown identifier %s' % name)

    def field(self, v, fname):
        w = self.w
        ty = v.ty
        sp = w.prog.struct_of_ptr(ty) if ty in w.prog.types else None
        if sp is not None:
            sname, se = sp
            i, f = w.field_index(sname, fname)
            val = self.heap.get(('f', sname, fname))[v.t]
            if not self.bound and w.prog.kind(f['type']) in ('slice', 'ptr', 'map'):
                # type safety of the heap: what a field holds is a well-typed value of the state it is read in
                from .symex import well_typed
                try:
                    for fact in well_typed(self.V, self.heap, val, f['type']):
                        self.V.add_hyp(fact)
                except OutOfSubset:
                    pass
            return SV(val, f['type'])
        if ty in w.prog.types and w.prog.kind(ty) == 'struct':
            i, f = w.field_index(ty, fname)
            return SV(w.struct_get(ty, v.t, i), f['type'])
        raise SpecError('field %s of non-struct %s' % (fname, ty))

    def index(self, s, i):
        w = self.w
        uk, e = w.prog.under(s.ty)
        if e['kind'] == 'slice':
            S = w.Slice
            el = e['elem']
            return SV(self.heap.get(('el', el))[S.arr(s.t)][w.ix(S.off(s.t), i.t)], el)
        if e['kind'] == 'map':
            return SV(self.heap.get(('mval', s.ty))[s.t][i.t], e['elem'])
        if e['kind'] == 'basic' and 'string' in e['name']:
            return SV(w.uf('str_at', w.Str, z3.IntSort(), z3.IntSort())(s.t, i.t), 'int')
        if e['kind'] == 'array':
            return SV(s.t[i.t], e['elem'])
        raise SpecError('index of %s' % s.ty)

    def unify(self, x, y):
        w = self.w
        if x.ty == 'nil' and y.ty == 'nil':
            return SV(z3.IntVal(0), 'int'), SV(z3.IntVal(0), 'int')
        if x.ty == 'nil':
            return SV(w.zero(y.ty), y.ty), y
        if y.ty == 'nil':
            return x, SV(w.zero(x.ty), x.ty)
        if z3.is_int(x.t) and z3.is_real(y.t):
            return SV(z3.ToReal(x.t), y.ty), y
        if z3.is_real(x.t) and z3.is_int(y.t):
            return x, SV(z3.ToReal(y.t), x.ty)
        return x, y

    def binop(self, op, a, b):
        if op == '&&':
            return SV(z3.And(self.boolean(a), self.boolean(b)), 'bool')
        if op == '||':
            return SV(z3.Or(self.boolean(a), self.boolean(b)), 'bool')
        if op == '==>':
            return SV(z3.Implies(self.boolean(a), self.boolean(b)), 'bool')
        if op == '<==>':
            return SV(self.boolean(a) == self.boolean(b), 'bool')
        x, y = self.unify(self.ev(a), self.ev(b))
        if op == '==':
            return SV(x.t == y.t, 'bool')
        if op == '!=':
            return SV(x.t != y.t, 'bool')
        if op in ('<', '<=', '>', '>='):
            if x.t.sort() == self.w.Str:
                lt = self.w.uf('str_lt', self.w.Str, self.w.Str, z3.BoolSort())
                r = {'<': lt(x.t, y.t), '>': lt(y.t, x.t), '<=': z3.Not(lt(y.t, x.t)), '>=': z3.Not(lt(x.t, y.t))}[op]
                return SV(r, 'bool')
            r = {'<': x.t < y.t, '<=': x.t <= y.t, '>': x.t > y.t, '>=': x.t >= y.t}[op]
            return SV(r, 'bool')
        if op == '+':
            if x.t.sort() == self.w.Str:
                return SV(self.w.uf('str_cat', self.w.Str, self.w.Str, self.w.Str)(x.t, y.t), x.ty)
            return SV(x.t + y.t, x.ty)
        if op == '-':
            return SV(x.t - y.t, x.ty)
        if op == '*':
            return SV(x.t * y.t, x.ty)
        if op == '/':
            if z3.is_real(x.t) and not getattr(self.V, 'pure_arith', False):
                return SV(self.w.fdiv(x.t, y.t), x.ty)
            return SV(x.t / y.t, x.ty)
        if op == '%':
            return SV(x.t % y.t, x.ty)
        raise SpecError('operator ' + op)

    def quant(self, a):
        kind, binders, trig, body = a
        env2 = dict(self.env)
        vs = []
        for (n, t) in binders:
            ty = resolve_type(self.w, t, self.pkg)
            c = z3.Const('q_' + n, self.w.sort(ty))
            vs.append(c)
            env2[n] = SV(c, ty)
        bnd = dict(self.bound)
        for (n, t) in binders:
            bnd[n] = env2[n]
        ev2 = self.sub(env=env2, bound=bnd)
        b = ev2.boolean(body)
        pats = []
        for tr in trig:
            terms = [ev2.ev(x).t for x in tr]
            if any(_has_ite(t_) for t_ in terms):
                continue        # solvers reject if-then-else inside triggers
            pats.append(z3.MultiPattern(*terms) if len(terms) > 1 else terms[0])
        try:
            if kind == 'forall':
                return SV(z3.ForAll(vs, b, patterns=pats), 'bool')
            return SV(z3.Exists(vs, b, patterns=pats), 'bool')
        except z3.Z3Exception as e:
            # a trigger that z3 rejects (e.g. it simplified to a term without the bound variable): fall back to
            # automatic trigger selection rather than failing the whole function
            self.V.notes.append('a user trigger was rejected by z3 and dropped: %s' % (pats,))
            if kind == 'forall':
                return SV(z3.ForAll(vs, b), 'bool')
            return SV(z3.Exists(vs, b), 'bool')

    # ------------------------------------------------------------------
    def call(self, name, args):
        w = self.w
        S = w.Slice
        if name == 'old':
            if self.old is None:
                raise SpecError('old() not available here')
            # inside old(), a parameter name denotes the argument value at entry (a parameter that go/ssa
            # spilled to a local cell would otherwise be read from a cell that does not exist in the entry state)
            pe = getattr(self.V, 'param_env', None)
            if pe and self.pkg == getattr(self.V, 'param_pkg', None) and not getattr(self, 'in_callee', False):
                env = dict(self.env)
                for k_, v_ in pe.items():
                    if k_ not in self.bound:
                        env[k_] = v_
                return self.sub(heap=self.old, env=env).ev(args[0])
            return self.sub(heap=self.old).ev(args[0])
        if name == 'lold':
            if self.loop_old is None:
                raise SpecError('lold() outside loop')
            h, env = self.loop_old
            env = dict(env)
            env.update(self.bound)
            return self.sub(heap=h, env=env).ev(args[0])
        if name in ('remaining', 'canunread'):
            from .externals import rd_keys
            v = self.ev(args[0])
            kr, kc = rd_keys()
            if name == 'remaining':
                if not self.bound:
                    self.V.add_hyp(self.heap.get(kr)[v.t] >= 0)     # a count: never negative (model invariant)
                return SV(self.heap.get(kr)[v.t], 'int')
            return SV(self.heap.get(kc)[v.t], 'bool')
        if name == 'visited':
            # visited(n, k): key k has already been delivered by the n-th map range statement of the function
            n = args[0][1]
            rk = getattr(self.V, 'range_keys', {}).get(n)
            if rk is None:
                raise SpecError('visited(%s, ..): no such map range executed before this point' % n)
            kx = self.ev(args[1])
            return SV(self.heap.get(rk)[kx.t], 'bool')
        if name == 'atexit':
            # atexit(k, x): value of the loop-carried variable x of loop k at the loop head, i.e. when the loop is left
            key = (args[0][1], args[1][1]) if args[1][0] == 'id' else None
            v = getattr(self.V, 'loop_phi_vals', {}).get(key) if key else None
            if v is None:
                # any expression: evaluated in the state in which loop k is left (its head state; variables that
                # do not exist at the head keep their current value)
                hs = getattr(self.V, 'loop_head_states', {}).get(str(args[0][1]))
                if hs is None:
                    raise SpecError('atexit(%s, ...): unknown identifier (no such loop before this point)' % (args[0][1],))
                env0 = dict(self.env)
                env0.update(hs[1])
                env0.update(self.bound)
                return self.sub(heap=hs[0], env=env0).ev(args[1])
            return v
        if name == 'next':
            if self.latch is None:
                raise SpecError('next() outside a step clause')
            h, env = self.latch
            env = dict(env)
            env.update(self.bound)
            return self.sub(heap=h, env=env).ev(args[0])
        if name == 'atHead':
            if self.head is None:
                raise SpecError('atHead() outside a step clause')
            h, env = self.head
            # heap of the iteration head; loop-carried variables have their head value, variables assigned later in
            # the body (which did not exist at the head) keep their current value
            env0 = dict(self.env)
            env0.update(env)
            env0.update(self.bound)
            return self.sub(heap=h, env=env0).ev(args[0])
        if name == 'len':
            v = self.ev(args[0])
            uk, e = w.prog.under(v.ty)
            if e['kind'] == 'slice':
                return SV(S.len(v.t), 'int')
            if e['kind'] == 'map':
                return SV(z3.If(v.t == 0, z3.IntVal(0), self.heap.get(('msize', v.ty))[v.t]), 'int')     # len(nil map) == 0
            if e['kind'] == 'basic':
                return SV(w.strlen(v.t), 'int')
            raise SpecError('len of ' + v.ty)
        if name == 'cap':
            return SV(S.cap(self.ev(args[0]).t), 'int')
        if name == 'arr':
            return SV(S.arr(self.ev(args[0]).t), 'int')
        if name == 'off':
            return SV(S.off(self.ev(args[0]).t), 'int')
        if name in ('allocated', 'fresh', 'alloc_ok'):
            v = self.ev(args[0])
            if z3.is_expr(v.t) and v.t.sort() == S:
                a = S.arr(v.t)
                top = self.heap.get(('alloc', 'arr'))
                if name == 'fresh':
                    return SV(z3.And(a > self.old.get(('alloc', 'arr')), a <= top), 'bool')
                return SV(z3.And(a >= (1 if name == 'allocated' else 0), a <= top), 'bool')
            key = self.alloc_key(v.ty)
            if name == 'allocated':
                return SV(z3.And(v.t >= 1, v.t <= self.heap.get(key)), 'bool')
            if name == 'alloc_ok':
                return SV(z3.And(v.t >= 0, v.t <= self.heap.get(key)), 'bool')
            if self.old is None:
                raise SpecError('fresh() needs old state')
            return SV(z3.And(v.t > self.old.get(key), v.t <= self.heap.get(key)), 'bool')
        if name == 'eqorcompl':
            # eqorcompl(b, c): (*bitset.BitSet).EqualOrComplement(b, c) - the same term as the trusted model of the library
            from .externals import bs_keys
            b_, c_ = self.ev(args[0]), self.ev(args[1])
            kb, kl = bs_keys()
            bits, ln = self.heap.get(kb), self.heap.get(kl)
            f = w.uf('bs_eqc', z3.ArraySort(z3.IntSort(), z3.BoolSort()), z3.IntSort(), z3.ArraySort(z3.IntSort(), z3.BoolSort()), z3.IntSort(), z3.BoolSort())
            return SV(z3.And(c_.t != 0, f(bits[b_.t], ln[b_.t], bits[c_.t], ln[c_.t])), 'bool')
        if name == 'freshsince':
            # freshsince(k, x): the object / backing array x (current value) did not exist at the head of the current
            # iteration of loop k (an enclosing loop of the point where the clause is evaluated)
            X_ = getattr(self.V, 'cur_exec', None)
            kq = int(args[0][1])
            hh = None
            if X_ is not None:
                for h_, l_ in X_.cfg['loops'].items():
                    if l_['ordinal'] == kq and h_ in X_.loopstate and hasattr(X_.loopstate[h_], 'head_heap'):
                        hh = X_.loopstate[h_].head_heap
            if hh is None:
                raise SpecError('freshsince(%d, ..): loop %d has not been entered at this point' % (kq, kq))
            v = self.ev(args[1])
            if z3.is_expr(v.t) and v.t.sort() == S:
                return SV(z3.And(S.arr(v.t) > hh.get(('alloc', 'arr')), S.arr(v.t) <= self.heap.get(('alloc', 'arr'))), 'bool')
            key = self.alloc_key(v.ty)
            return SV(z3.And(v.t > hh.get(key), v.t <= self.heap.get(key)), 'bool')
        if name == 'freshiter':
            # freshiter(x): the object x (current value) did not exist at the head of the current loop iteration
            if self.head is None:
                raise SpecError('freshiter() outside a loop iteration (step clause or loop-qualified call clause)')
            v = self.ev(args[0])
            hh, _ = self.head
            if z3.is_expr(v.t) and v.t.sort() == S:
                return SV(z3.And(S.arr(v.t) > hh.get(('alloc', 'arr')), S.arr(v.t) <= self.heap.get(('alloc', 'arr'))), 'bool')
            key = self.alloc_key(v.ty)
            return SV(z3.And(v.t > hh.get(key), v.t <= self.heap.get(key)), 'bool')
        if name == 'fresh_arr':
            v = self.ev(args[0])
            return SV(z3.And(S.arr(v.t) > self.old.get(('alloc', 'arr')), S.arr(v.t) <= self.heap.get(('alloc', 'arr'))), 'bool')
        if name == 'has':
            m = self.ev(args[0])
            kx = self.ev(args[1])
            dom_ = self.heap.get(('mdom', m.ty))
            seen_ = self.V.__dict__.setdefault('_nilmap_facts', set())
            if dom_.get_id() not in seen_ and z3.is_const(dom_):
                # the nil map has no key (model fact, true of Go maps)
                seen_.add(dom_.get_id())
                kq_ = z3.Const('nilmap_k', kx.t.sort())
                self.V.global_hyps.append(z3.ForAll([kq_], z3.Not(dom_[0][kq_]), patterns=[dom_[0][kq_]]))
            return SV(dom_[m.t][kx.t], 'bool')
        if name == 'isnil':
            v = self.ev(args[0])
            if v.t.sort() == S:
                return SV(S.arr(v.t) == 0, 'bool')
            return SV(v.t == w.zero(v.ty), 'bool')
        if name == 'iref':
            v = self.ev(args[0])
            ty = resolve_type(w, args[1][1] if args[1][0] == 'id' else self.type_from_ast(args[1]), self.pkg) if len(args) > 1 else 'int'
            return SV(w.Iface.ref(v.t), ty)
        if name == 'itag':
            return SV(w.Iface.tag(self.ev(args[0]).t), 'int')
        if name == 'strlower':
            # strlower(s): the term strings.ToLower(s) returns (uninterpreted, the same function the trusted model uses)
            return SV(w.uf('strings_ToLower', w.Str, w.Str)(self.ev(args[0]).t), 'string')
        if name == 'fmtfloat':
            # fmtfloat(x): the text strconv.FormatFloat(x, 'f', -1, 64) returns (the term of its trusted model)
            f_ = w.uf('strconv_FormatFloat', z3.RealSort(), z3.IntSort(), z3.IntSort(), z3.IntSort(), w.Str)
            x_ = self.ev(args[0]).t
            if z3.is_int(x_):
                x_ = z3.ToReal(x_)
            return SV(f_(x_, z3.IntVal(102), z3.IntVal(-1), z3.IntVal(64)), 'string')
        if name == 'iface':
            # iface(x, "T"): the interface value holding the pointer x with dynamic type T (what MakeInterface builds)
            ty = resolve_type(w, self.type_from_ast(args[1]), self.pkg)
            return SV(w.Iface.mk_iface(z3.IntVal(w.tag(ty)), self.ev(args[0]).t), 'iface')
        if name == 'typetag':
            ty = resolve_type(w, self.type_from_ast(args[0]), self.pkg)
            return SV(z3.IntVal(w.tag(ty)), 'int')
        if name == 'oldarrays_same':
            # oldarrays_same("T"): every backing array of element type T that existed at function entry still holds
            # what it held then (what a frame without elems("T") means, usable as a loop invariant)
            if self.old is None:
                raise SpecError('oldarrays_same() needs old state')
            ty = resolve_type(w, args[0][1], self.pkg)
            key = ('el', ty)
            r_ = z3.Const('oa_r', z3.IntSort())
            new_, old_ = self.heap.get(key), self.old.get(key)
            conds_ = [r_ >= 1, r_ <= self.old.get(('alloc', 'arr'))]
            for extra in args[1:]:
                # oldarrays_same("T", s...): except the backing array the slice s had at function entry
                conds_.append(r_ != S.arr(self.sub(heap=self.old).ev(extra).t))
            return SV(z3.ForAll([r_], z3.Implies(z3.And(*conds_), new_[r_] == old_[r_]), patterns=[new_[r_]]), 'bool')
        if name == 'itoa':
            # itoa(i): strconv.Itoa(i) - the uninterpreted function of the trusted model
            v_ = self.ev(args[0])
            return SV(w.uf('strconv_Itoa', z3.IntSort(), w.Str)(v_.t), 'string')
        if name == 'mathpow':
            # mathpow(x, y): math.Pow(x, y) - the same uninterpreted function as the trusted model of math.Pow
            x_, y_ = self.ev(args[0]), self.ev(args[1])
            tx = z3.ToReal(x_.t) if z3.is_int(x_.t) else x_.t
            ty_ = z3.ToReal(y_.t) if z3.is_int(y_.t) else y_.t
            return SV(w.uf('math_Pow', z3.RealSort(), z3.RealSort(), z3.RealSort())(tx, ty_), 'float64')
        if name == 'bitand':
            # bitand(x, y): Go's x & y on non-negative operands - the same uninterpreted function the code translation uses
            x_, y_ = self.ev(args[0]), self.ev(args[1])
            f_ = w.uf('bits_and', z3.IntSort(), z3.IntSort(), z3.IntSort())
            if not getattr(self.V, '_bitand_axiom', False):
                # x & y with y >= 0 lies in [0, y] (two's complement, any x); with x >= 0 too it is also <= x
                self.V._bitand_axiom = True
                bx_, by_ = z3.Ints('ba_x ba_y')
                self.V.global_hyps.append(z3.ForAll([bx_, by_], z3.And(z3.Implies(by_ >= 0, z3.And(f_(bx_, by_) >= 0, f_(bx_, by_) <= by_)), z3.Implies(z3.And(bx_ >= 0, by_ >= 0), f_(bx_, by_) <= bx_)), patterns=[f_(bx_, by_)]))
            return SV(f_(x_.t, y_.t), 'int')
        if name == 'parsesfloat':
            # parsesfloat(s): strconv.ParseFloat(s, 64) succeeds (the same uninterpreted predicate as the model of ParseFloat)
            v = self.ev(args[0])
            return SV(w.uf('strconv_ParseFloat_ok', w.Str, z3.BoolSort())(v.t), 'bool')
        if name == 'toint':
            v = self.ev(args[0])
            x = v.t
            if z3.is_int(x):
                return SV(x, 'int')
            return SV(z3.If(x >= 0, z3.ToInt(x), -z3.ToInt(-x)), 'int')     # Go's float -> int conversion truncates toward zero
        if name == 'real':
            v = self.ev(args[0])
            return SV(z3.ToReal(v.t) if z3.is_int(v.t) else v.t, 'float64')
        if name == 'max':
            x, y = self.unify(self.ev(args[0]), self.ev(args[1]))
            return SV(z3.If(x.t >= y.t, x.t, y.t), x.ty)
        if name == 'min':
            x, y = self.unify(self.ev(args[0]), self.ev(args[1]))
            return SV(z3.If(x.t <= y.t, x.t, y.t), x.ty)
        if name == 'abs':
            x = self.ev(args[0])
            return SV(z3.If(x.t >= 0, x.t, -x.t), x.ty)
        if name in ('closed', 'sent', 'received'):
            from .chans import gk_arr
            v = self.ev(args[0])
            a = self.heap.get(gk_arr({'closed': 'closed_on', 'sent': 'sent_on', 'received': 'recv_on'}[name]))[v.t]
            return SV(a != 0, 'bool') if name == 'closed' else SV(a, 'int')
        if name == 'ghost':
            nm = args[0][1]
            for key in list(self.V.h0.keys()) + list(self.heap.d.keys()):
                if key[0] == 'ghost' and key[1] == nm:
                    return SV(self.heap.get(key), 'ghost')
            # integer-valued ghost variables need no declaration
            return SV(self.heap.get(('ghost', nm, z3.IntSort())), 'int')
        if name == 'cast':
            ty = resolve_type(w, self.type_from_ast(args[1]), self.pkg)
            return SV(self.ev(args[0]).t, ty)
        gf = self.V.contracts.get('ghostfuncs', {}).get(name)
        if gf is not None and len(args) == len(gf[0]):
            from .verify import ghost_key
            key = ghost_key(w, name, gf[0], gf[1])
            t = self.heap.get(key)
            for aa in args:
                t = t[self.ev(aa).t]
            return SV(t, 'int')
        own_ = (self.V.contracts.get('defines_pkg') or {}).get(self.pkg, {}).get(name)
        d = own_ if own_ is not None else self.V.contracts['defines'].get(name)
        if d is not None:
            params, ret, body = d
            if len(params) != len(args):
                raise SpecError('arity of ' + name)
            env2 = {}
            # defines see only their parameters (plus globals), evaluated in the current heap; type names in a define
            # are those of the package whose contract file declares it
            dpkg = self.pkg if own_ is not None else ((self.V.contracts.get('defpkg') or {}).get(name) or self.pkg)
            for (pn, pt), aa in zip(params, args):
                v = self.ev(aa)
                ty = resolve_type(w, pt, dpkg)
                if v.ty == 'nil':
                    v = SV(w.zero(ty), ty)
                env2[pn] = SV(v.t, ty)
            sub_ = self.sub(env=env2, results=None)
            sub_.pkg = dpkg
            r = sub_.ev(body)
            rt = 'bool' if ret == 'bool' else resolve_type(w, ret, dpkg)
            return SV(r.t, rt)
        sp = self.V.contracts['specs'].get(name)
        if sp is not None:
            params, ret = sp
            sorts = []
            ts = []
            dpkg = (self.V.contracts.get('defpkg') or {}).get(name) or self.pkg
            for (pn, pt), aa in zip(params, args):
                ty = resolve_type(w, pt, dpkg)
                v = self.ev(aa)
                if v.ty == 'nil':
                    v = SV(w.zero(ty), ty)
                t = v.t
                so = w.sort(ty)
                if so == z3.RealSort() and z3.is_int(t):
                    t = z3.ToReal(t)
                sorts.append(so)
                ts.append(t)
            rty = resolve_type(w, ret, dpkg)
            f = w.uf('spec_' + name, *(sorts + [w.sort(rty)]))
            return SV(f(*ts), rty)
        raise SpecError('unknown function %s' % name)

    def type_from_ast(self, a):
        if a[0] == 'id':
            return a[1]
        if a[0] == 'field':
            return self.type_from_ast(a[1]) + '.' + a[2]
        if a[0] == 'un' and a[1] == '*':
            return '*' + self.type_from_ast(a[2])
        if a[0] == 'str':
            return a[1]
        raise SpecError('type expected: %r' % (a,))

    def alloc_key(self, ty):
        w = self.w
        sp = w.prog.struct_of_ptr(ty)
        if sp is not None:
            return ('alloc', sp[0])
        uk, e = w.prog.under(ty)
        if e['kind'] == 'map':
            return ('alloc', 'map')
        if e['kind'] == 'ptr':
            return ('alloc', 'cell:' + e['elem'])
        if e['kind'] == 'chan':
            return ('alloc', 'chan')
        raise SpecError('allocated() of ' + ty)
