"""IR loading and CFG utilities (dominators, natural loops, topological order)."""
import json


class Program:
    def __init__(self, path):
        d = json.load(open(path))
        self.funcs = d['funcs']
        self.types = d['types']
        self.packages = d['packages']
        self._separate_register_names()
        self.aliases = {}     # stable name -> go/ssa function key   (pkg.var.Field for closures stored in package-level literals)
        self.display = {}     # go/ssa function key -> stable name
        self._closure_aliases()
        from . import names as _names
        self.renamed = _names.apply(self)      # harmless renamings of variables mapped back to the recorded names
        self.const_globals = self._const_globals()

    def _separate_register_names(self):
        """go/ssa names its registers t0, t1, ...; a Go parameter or captured variable may carry the same name
        (CompareTipIndexes(t2 *Tree)).  Registers that collide are renamed so that both live in one environment."""
        def rename(o, names):
            if isinstance(o, dict):
                if o.get('k') == 'reg' and o.get('name') in names:
                    o['name'] = o['name'] + '#r'
                for v in o.values():
                    rename(v, names)
            elif isinstance(o, list):
                for v in o:
                    rename(v, names)
        for key, f in self.funcs.items():
            P = {p['name'] for p in f.get('params', [])} | {p['name'] for p in f.get('freevars', [])}
            regs = {i['name'] for b in f['blocks'] for i in b['instrs'] if 'name' in i}
            coll = P & regs
            if not coll:
                continue
            for b in f['blocks']:
                for i in b['instrs']:
                    for fld, v in i.items():
                        if fld != 'name':
                            rename(v, coll)
                    if i.get('name') in coll:
                        i['name'] = i['name'] + '#r'

    def _const_globals(self):
        """package-level variables that are initialised with a constant and never assigned outside the package
        initialiser (e.g. `var eof = rune(0)`): effectively constants"""
        stored = {}
        inits = {}
        for key, f in self.funcs.items():
            isinit = key.endswith('.init') and key.count('.') == 1 or key.rsplit('.', 1)[-1] == 'init'
            for blk in f['blocks']:
                for x in blk['instrs']:
                    if x['op'] == 'Store' and x['addr']['k'] == 'global':
                        g = (x['addr']['pkg'], x['addr']['name'])
                        if isinit and x['val']['k'] == 'const':
                            inits.setdefault(g, []).append(x['val'])
                        else:
                            stored[g] = True
                    elif x['op'] in ('Call', 'Defer', 'Go', 'MakeClosure'):
                        # address of a global escaping as an argument: it may be written elsewhere
                        for a in x.get('args', []) + x.get('bindings', []):
                            if a and a.get('k') == 'global':
                                stored[(a['pkg'], a['name'])] = True
        out = {}
        for g, vals in inits.items():
            if g not in stored and len(vals) == 1:
                out[g] = vals[0]
        return out

    def _closure_aliases(self):
        """closures stored into fields of composite literals assigned to package-level variables
        (cobra commands: `var sampleCmd = &cobra.Command{RunE: func...}`) get the stable name pkg.var.Field;
        go/ssa numbers them init$N in file order, which shifts whenever a file is added"""
        for pk in self.packages:
            f = self.funcs.get(pk + '.init')
            if not f:
                continue
            alloc = {}
            faddr = {}
            stored = {}
            for blk in f['blocks']:
                for x in blk['instrs']:
                    op = x['op']
                    if op == 'Alloc':
                        alloc[x['name']] = x['name']
                    elif op == 'FieldAddr' and x['x'].get('name') in alloc:
                        try:
                            st = self.under(self.types[x['x']['type']]['elem'])[1]
                            faddr[x['name']] = (x['x']['name'], st['fields'][x['field']]['name'])
                        except Exception:
                            pass
                    elif op == 'MakeClosure':
                        stored[x['name']] = x['fn']
                    elif op == 'Store':
                        a, v = x['addr'], x['val']
                        if a.get('name') in faddr:
                            fk = v.get('key') if v['k'] == 'func' else stored.get(v.get('name'))
                            if fk:
                                alloc.setdefault('fields', {})
                                stored[(faddr[a['name']])] = fk
                        elif a['k'] == 'global' and v.get('name') in alloc:
                            for key, fk in list(stored.items()):
                                if isinstance(key, tuple) and key[0] == v['name']:
                                    name = '%s.%s.%s' % (pk, a['name'], key[1])
                                    self.aliases[name] = fk
                                    self.display[fk] = name
                                    # function literals inside the closure: pkg.var.Field$1, $1$2, ...
                                    for k2 in list(self.funcs):
                                        if k2.startswith(fk + '$'):
                                            self.aliases[name + k2[len(fk):]] = k2
                                            self.display[k2] = name + k2[len(fk):]

    def resolve(self, key):
        return self.aliases.get(key, key)

    def shown(self, key):
        return self.display.get(key, key)

    # ---- type helpers -------------------------------------------------
    def T(self, key):
        return self.types[key]

    def under(self, key):
        """resolve named types to their underlying type entry (returns (key, entry))"""
        e = self.types[key]
        seen = 0
        while e['kind'] == 'named' and seen < 10:
            key = e['underlying']
            e = self.types[key]
            seen += 1
        return key, e

    def kind(self, key):
        return self.under(key)[1]['kind']

    def struct_of_ptr(self, key):
        """for a pointer-to-(named)-struct type key return (struct type name key, struct entry) else None"""
        k, e = self.under(key)
        if e['kind'] != 'ptr':
            return None
        el = e['elem']
        uk, ue = self.under(el)
        if ue['kind'] == 'struct':
            return el, ue
        return None


def analyze_cfg(fn):
    """returns dict with: order (topological order of blocks ignoring back edges),
    back_edges set((src,dst)), loops {head: {'body': set, 'ordinal': k, 'entries': [preds], 'latches': [preds]}}"""
    blocks = fn['blocks']
    n = len(blocks)
    succs = [b['succs'] for b in blocks]
    preds = [b['preds'] for b in blocks]
    # reachable from entry
    reach = set()
    st = [0]
    while st:
        x = st.pop()
        if x in reach:
            continue
        reach.add(x)
        st.extend(succs[x])
    # dominators (iterative)
    dom = {b: set(reach) for b in reach}
    dom[0] = {0}
    changed = True
    rpo = _rpo(succs, 0)
    while changed:
        changed = False
        for b in rpo:
            if b == 0:
                continue
            ps = [p for p in preds[b] if p in reach]
            new = set(reach)
            for p in ps:
                new &= dom[p]
            new.add(b)
            if new != dom[b]:
                dom[b] = new
                changed = True
    back = set()
    for b in reach:
        for s in succs[b]:
            if s in dom[b]:
                back.add((b, s))
    loops = {}
    for (b, h) in back:
        body = loops.setdefault(h, {'body': {h}, 'latches': []})
        body['latches'].append(b)
        st = [b]
        while st:
            x = st.pop()
            if x in body['body']:
                continue
            body['body'].add(x)
            st.extend(p for p in preds[x] if p in reach)
    for k, h in enumerate(sorted(loops)):
        loops[h]['ordinal'] = k + 1
        loops[h]['entries'] = [p for p in preds[h] if (p, h) not in back and p in reach]
    # topological order ignoring back edges
    indeg = {b: 0 for b in reach}
    for b in reach:
        for s in succs[b]:
            if (b, s) not in back:
                indeg[s] += 1
    order = []
    ready = sorted(b for b in reach if indeg[b] == 0)
    while ready:
        b = ready.pop(0)
        order.append(b)
        for s in succs[b]:
            if (b, s) in back:
                continue
            indeg[s] -= 1
            if indeg[s] == 0:
                ready.append(s)
        ready.sort()
    # ancestors in DAG
    anc = {b: set() for b in reach}
    for b in order:
        for s in succs[b]:
            if (b, s) in back:
                continue
            anc[s] |= anc[b] | {b}
    return {'order': order, 'back': back, 'loops': loops, 'reach': reach, 'anc': anc, 'dom': dom}


def _rpo(succs, entry):
    seen = set()
    out = []

    def dfs(x):
        seen.add(x)
        for s in succs[x]:
            if s not in seen:
                dfs(s)
        out.append(x)
    import sys
    sys.setrecursionlimit(10000)
    dfs(entry)
    return out[::-1]


def nonescaping_slices(fn):
    """names of MakeSlice results whose backing array cannot be reached by any callee or stored anywhere:
    the value (and slices derived from it) is only indexed, sliced, measured, copied to/from, ranged over or merged.
    Sound use: a callee's frame cannot include such an array (it has no way to name it)."""
    cached = fn.get('_nonescaping')
    if cached is not None:
        return cached
    instrs = [i for b in fn['blocks'] for i in b['instrs']]
    makes = [i['name'] for i in instrs if i['op'] == 'MakeSlice' and 'name' in i]

    def refs(o, name):
        if isinstance(o, dict):
            if o.get('k') == 'reg' and o.get('name') == name:
                return True
            return any(refs(v, name) for v in o.values())
        if isinstance(o, list):
            return any(refs(v, name) for v in o)
        return False

    def is_reg(o, name):
        return isinstance(o, dict) and o.get('k') == 'reg' and o.get('name') == name

    def ok_value(name, seen):
        # every use of the slice value `name`
        if name in seen:
            return True
        seen = seen | {name}
        for i in instrs:
            body = {k: v for k, v in i.items() if k != 'name'}
            if not refs(body, name):
                continue
            op = i['op']
            if op == 'DebugRef':
                continue
            if op == 'IndexAddr' and is_reg(i.get('x'), name) and not refs(i.get('index'), name):
                if not ok_addr(i['name']):
                    return False
                continue
            if op == 'Slice' and is_reg(i.get('x'), name):
                if not ok_value(i['name'], seen):
                    return False
                continue
            if op == 'Call' and i.get('callee', {}).get('k') == 'builtin' and i['callee'].get('name') in ('len', 'cap', 'copy'):
                continue
            if op == 'Range' or op == 'Phi':
                if op == 'Phi' and not ok_value(i['name'], seen):
                    return False
                continue
            return False
        return True

    def ok_addr(name):
        for i in instrs:
            body = {k: v for k, v in i.items() if k != 'name'}
            if not refs(body, name):
                continue
            op = i['op']
            if op == 'DebugRef':
                continue
            if op == 'Store' and is_reg(i.get('addr'), name) and not refs(i.get('val'), name):
                continue
            if op == 'UnOp' and i.get('tok') == '*':
                continue
            return False
        return True

    out = set(m for m in makes if ok_value(m, frozenset()))
    fn['_nonescaping'] = out
    return out
