"""Calls: builtins, callee contracts (modular), inlining of small contract-less functions, trusted externals."""
import os
import z3
from .world import OutOfSubset, LValue, FuncVal
from .heap import Heap
from .speceval import SpecEval, SV, resolve_type
from .spec import SpecError
from .symex import well_typed, load_lvalue, store_lvalue, MAX_INLINE_DEPTH

I = z3.IntSort()


def setres(X, ins, vals, types=None):
    if ins.get('name') is None:
        return
    tk = ins.get('type')
    if tk is None:
        return
    e = X.w.prog.types.get(tk)
    if e is not None and e['kind'] == 'tuple':
        X.env[ins['name']] = list(vals)
    else:
        X.env[ins['name']] = vals[0] if vals else None


def do_call(X, ins):
    w = X.w
    if 'invoke' in ins:
        return invoke_call(X, ins)
    cal = ins['callee']
    if cal['k'] == 'builtin':
        return builtin_call(X, ins, cal['name'])
    key = ins.get('static')
    args = ins['args']
    if key is None:
        # dynamic call through a function value
        fv = X.val(cal)
        if isinstance(fv, FuncVal) and fv.key:
            key = fv.key
            argv = [X.val(a) for a in args] + list(fv.bindings)
            return call_function(X, ins, key, argv, args)
        return dynamic_call(X, ins)
    fv = X.val(cal) if cal['k'] == 'reg' else None
    argv = [X.val(a) for a in args]
    if isinstance(fv, FuncVal):
        argv += list(fv.bindings)
    return call_function(X, ins, key, argv, args)


def callsite_assertions(X, ins, key, argv, argops):
    c = X.contract if X.top else None
    if c is None or not c.get('calls'):
        return
    for (ckey, lab, ast, txt) in c['calls']:
        inloop = None
        headloop = None
        only_ = False
        if '@L' in ckey:
            # call <callee>@Lk ...: the clause applies to the call sites inside loop k only
            ckey, lk_ = ckey.rsplit('@L', 1)
            # @Lk^j: the sites inside loop k, with atHead / freshiter referring to the current iteration of the
            # enclosing loop j
            headloop = None
            only_ = lk_.endswith('!')      # @Lk!: only the sites whose innermost loop is loop k
            lk_ = lk_.rstrip('!')
            if '^' in lk_:
                lk_, hl_ = lk_.split('^', 1)
                headloop = int(hl_)
            inloop = int(lk_)
        if ckey != key:
            continue
        if inloop == 0:
            # @L0: the call sites that are in no loop at all
            if any(X.block in l['body'] for l in X.cfg['loops'].values()):
                continue
        elif inloop is not None:
            lp_ = [(h_, l) for h_, l in X.cfg['loops'].items() if l['ordinal'] == inloop]
            # a site belongs to loop k when it is in its body, or - for code that leaves the loop from inside an
            # iteration (an error return) - when a body block other than the head dominates it
            if not lp_ or not (X.block in lp_[0][1]['body'] or any(x_ != lp_[0][0] and x_ in X.cfg['dom'][X.block] for x_ in lp_[0][1]['body'])):
                continue
            lp_ = [lp_[0][1]]
            if only_ and any(X.block in l['body'] and len(l['body']) < len(lp_[0]['body']) for l in X.cfg['loops'].values()):
                continue
        shown_ = ckey if inloop is None else ('%s@L%d%s' % (ckey, inloop, '!' if only_ else '') if headloop is None else '%s@L%d^%d' % (ckey, inloop, headloop))
        names = X.resolve_names(X.block, upto_idx=X.cur_idx)
        env = X.spec_env(names)
        for i, (a, ao) in enumerate(zip(argv, argops)):
            if z3.is_expr(a):
                env['a%d' % i] = SV(a, ao['type'])
        ev = SpecEval(X.V, X.pkg, env, X.heap, old=X.top_entry_heap())
        # inside a loop: atHead(e) / lold(e) refer to the innermost (or the named) enclosing loop's current iteration
        best_ = None
        for h_, l_ in X.cfg['loops'].items():
            inl_ = X.block in l_['body'] or (inloop is not None and any(x_ != h_ and x_ in X.cfg['dom'][X.block] for x_ in l_['body']))
            if inl_ and h_ in getattr(X, 'loopstate', {}) and hasattr(X.loopstate[h_], 'head_heap'):
                if inloop is not None and l_['ordinal'] != (inloop if headloop is None else headloop):
                    continue
                if best_ is None or len(l_['body']) < len(X.cfg['loops'][best_]['body']):
                    best_ = h_
        if best_ is not None:
            st_ = X.loopstate[best_]
            ev.head = (st_.head_heap, st_.env_head)
            ev.loop_old = (st_.entry_heap, st_.env_entry)
        ck = (shown_, lab)
        X.V.call_clause_seen = getattr(X.V, 'call_clause_seen', {})
        X.V.call_clause_seen.setdefault(ck, 0)
        try:
            X.oblige('callsite', ev.boolean(ast), ins.get('pos', ''), label='%s.%s' % (shown_, lab or '0'), text=txt)
            X.V.call_clause_seen[ck] += 1
        except SpecError as e:
            # the clause names local variables that do not exist at this call site: it does not apply here
            # (it must apply to at least one call site, checked at the end of generation)
            if 'unknown identifier' not in str(e):
                raise OutOfSubset('call clause for %s in %s: %s' % (key, X.fnkey, e))


def call_function(X, ins, key, argv, argops):
    V = X.V
    w = X.w
    prog = w.prog
    callsite_assertions(X, ins, key, argv, argops)
    # ghost call counter per method / function name (ncalls_<Name>), readable in contracts as ghost(ncalls_<Name>)
    if X.top and X.contract is not None and 'countcalls' in X.contract['flags']:
        nm = key.rsplit('.', 1)[-1]
        gk_ = ('ghost', 'ncalls_' + nm, I)
        X.heap.set(gk_, X.heap.get(gk_) + 1)
    c = V.contracts['funcs'].get(key)
    if c is not None and 'inline' not in c['flags']:
        return contract_call(X, ins, key, c, argv)
    if c is not None:
        # flag inline: the body is executed at the call site, but the function has a contract of its own that a
        # registered check verifies - it belongs to the dependencies of the caller
        V.inlined_contracts = getattr(V, 'inlined_contracts', set())
        V.inlined_contracts.add(key)
    ext = V.externals.get(key)
    if ext is not None:
        res = ext(X, ins, argv)
        if res is not None:
            setres(X, ins, res)
        return
    if key in prog.funcs and prog.funcs[key]['blocks']:
        fn = prog.funcs[key]
        from .symex import cfg_of
        if X.depth >= MAX_INLINE_DEPTH or key in X.V.inline_stack or cfg_of(prog, key)['loops']:
            # a callee without contract that cannot be executed in place (it loops, recurses, or sits too deep): it is
            # over-approximated - everything its body may write is havocked, its results are arbitrary well-typed
            # values, nothing is assumed about it; its own run-time safety is not checked here (stated in the notes).
            # A harmless refactoring that moves code into a new helper therefore does not stop the verification of the
            # caller; clauses of the caller that needed facts about the moved code fail as undischarged obligations.
            from .modset import func_modset
            for hk_ in sorted(func_modset(V, key, [X.fnkey, key]), key=str):
                nv_ = V.fresh_heap_const(hk_, X.tag + 'nocontract')
                if hk_[0] == 'alloc':
                    X.hyp(nv_ >= X.heap.get(hk_))
                X.heap.set(hk_, nv_)
            V.notes.append('callee without contract that cannot be inlined (loops / recursion): %s - effects havocked, results arbitrary, its own safety not checked' % key)
            return generic_external(X, ins, key)
        from .symex import Exec
        sub = Exec(V, key, X.depth + 1)
        sub.localcells = X.localcells
        V.inline_stack.append(key)
        try:
            argv2 = []
            for a in argv:
                if isinstance(a, FuncVal) or isinstance(a, LValue) or z3.is_expr(a):
                    argv2.append(a)
                else:
                    raise OutOfSubset('tuple argument')
            rr, res, hp = sub.run(argv2, X.heap, X.reach)
        finally:
            V.inline_stack.pop()
        # after the call, execution continues only if the callee returned
        X.heap = hp.copy()
        if not z3.is_true(rr):
            nr = z3.Bool('%s_ret' % sub.tag)
            V.add_hyp(nr == rr)
            X.reach = nr
        setres(X, ins, res)
        return
    if generic_external_ok(key):
        return generic_external(X, ins, key)
    raise OutOfSubset('call to %s: no contract, no body, no trusted spec' % key)


# packages whose functions never write to gotree's data structures (they may read slices/strings passed to them)
GENERIC_PKGS = ('fmt', 'os', 'strings', 'strconv', 'errors', 'log', 'math', 'path/filepath', 'time', 'io', 'bufio', 'bytes',
                'regexp', 'unicode', 'unicode/utf8', 'compress/gzip', 'runtime', 'encoding/csv', 'io/ioutil', 'net/http', 'net/url',
                'github.com/fredericlemoine/gostats', 'github.com/evolbioinfo/goalign/align',
                'github.com/evolbioinfo/goalign/io/fasta', 'github.com/evolbioinfo/goalign/io/phylip', 'math/rand')
GENERIC_DENY = ('os.Exit', 'runtime.Goexit', 'log.Fatal', 'log.Fatalf', 'log.Fatalln', 'log.Panic', 'log.Panicf')


def key_pkg(key):
    k = key
    if k.startswith('iface:'):
        k = k[len('iface:'):]
        return k.rsplit('.', 2)[0] if k.count('.') >= 2 else k.rsplit('.', 1)[0]
    if k.startswith('(*') or k.startswith('('):
        inner = k[1:k.index(')')].lstrip('*')
        return inner.rsplit('.', 1)[0]
    return k.rsplit('.', 1)[0]


def generic_external_ok(key):
    if key in GENERIC_DENY:
        return False
    return key_pkg(key) in GENERIC_PKGS


def generic_external(X, ins, key):
    """external function without a specific model: returns arbitrary well-typed values, writes nothing in gotree's heap"""
    from .externals import USED
    USED.add('generic:' + key)
    w = X.w
    tk = ins.get('type')
    res = []
    if tk:
        e = w.prog.types.get(tk)
        tys = e['elems'] if e is not None and e['kind'] == 'tuple' else ([tk] if tk != '()' else [])
        for t in tys:
            kind = w.prog.kind(t)
            if kind == 'slice':
                a = X.alloc_id('arr')
                n = w.fresh('extlen', I)
                X.hyp(n >= 0)
                el = w.prog.under(t)[1]['elem']
                hk = ('el', el)
                X.heap.set(hk, z3.Store(X.heap.get(hk), a, w.fresh('extarr', z3.ArraySort(I, w.sort(el)))))
                res.append(w.Slice.mk_slice(a, 0, n, n))
                continue
            if kind == 'func':
                raise OutOfSubset('external returning a function: ' + key)
            v = w.fresh('ext', w.sort(t))
            for f in well_typed(X.V, X.heap, v, t):
                X.hyp(f)
            # constructors (New...) of the trusted packages return a usable object, never nil
            fname = key.rsplit('.', 1)[-1]
            if fname.startswith('New') and len(tys) == 1:
                if kind == 'ptr':
                    X.hyp(v != 0)
                elif kind == 'iface':
                    X.hyp(w.Iface.tag(v) > 0)
            res.append(v)
    # method call on a nil foreign pointer receiver
    setres(X, ins, res)


def dynamic_call(X, ins):
    """call through a function-typed parameter (callback): counted in the ghost fncalls_<param>; the callback is the
    caller's code - its effects on the heap are not modelled inside the function under verification (assumption)"""
    cal = ins['callee']
    if cal['k'] != 'param':
        raise OutOfSubset('dynamic call in ' + X.fnkey)
    w = X.w
    key = ('ghost', 'fncalls_' + cal['name'], I)
    X.heap.set(key, X.heap.get(key) + 1)
    for i, a in enumerate(ins['args']):
        v = X.val(a)
        if z3.is_expr(v):
            X.heap.set(('ghost', 'fnarg%d_%s' % (i, cal['name']), v.sort()), v)
    X.V.notes.append('callback parameter %s of %s: its own effects are not modelled inside this function' % (cal['name'], X.V.shown))
    tk = ins.get('type')
    res = []
    if tk:
        e = w.prog.types.get(tk)
        tys = e['elems'] if e is not None and e['kind'] == 'tuple' else ([tk] if tk != '()' else [])
        for t in tys:
            v = w.fresh('cbres', w.sort(t))
            for f in well_typed(X.V, X.heap, v, t):
                X.hyp(f)
            res.append(v)
    setres(X, ins, res)


def invoke_call(X, ins):
    V = X.V
    key = 'iface:%s.%s' % (ins['iface'], ins['invoke'])
    ext = V.externals.get(key)
    recv = X.term(ins['recv'])
    argv = [recv] + [X.val(a) for a in ins['args']]
    c = V.contracts['funcs'].get(key)
    X.nonnil(X.w.Iface.tag(recv), ins['pos'], 'method call on nil interface')
    callsite_assertions(X, ins, key, argv, [ins['recv']] + list(ins['args']))
    if X.top and X.contract is not None and 'countcalls' in X.contract['flags']:
        gk_ = ('ghost', 'ncalls_' + ins['invoke'], I)
        X.heap.set(gk_, X.heap.get(gk_) + 1)
    if c is not None:
        return contract_call(X, ins, key, c, argv, iface_sig=ins['sig'])
    if ext is not None:
        res = ext(X, ins, argv)
        if res is not None:
            setres(X, ins, res)
        return
    if generic_external_ok(key):
        return generic_external(X, ins, key)
    raise OutOfSubset('interface method call %s without contract' % key)


# ---------------------------------------------------------------------- contract calls
def callee_signature(X, key, iface_sig=None):
    prog = X.w.prog
    if key in prog.funcs:
        fn = prog.funcs[key]
        params = [(p['name'], p['type']) for p in fn['params']] + [(p['name'], p['type']) for p in fn['freevars']]
        results = [(r['name'], r['type']) for r in fn['results']]
        pkg = fn.get('pkg')
        p = fn
        while pkg is None and p.get('parent'):
            p = prog.funcs[p['parent']]
            pkg = p.get('pkg')
        return params, results, pkg
    if iface_sig is not None:
        e = prog.types[iface_sig]
        params = [('self', None)] + [('a%d' % i, t) for i, t in enumerate(e['params'])]
        results = [('', t) for t in e['results']]
        return params, results, key[len('iface:'):].rsplit('.', 2)[0].split('.')[0] if False else iface_pkg(key)
    raise OutOfSubset('no signature for ' + key)


def iface_pkg(key):
    # iface:hashmap.Hasher.HashCode -> hashmap
    body = key[len('iface:'):]
    tname = body.rsplit('.', 1)[0]
    return tname.rsplit('.', 1)[0]


def assign_targets(X, ast, ev):
    """interpret one assigns item; yields (heapkey, location-or-None)"""
    w = X.w
    S = w.Slice
    k = ast[0]
    if k == 'field':
        base = ast[1]
        # Type.field / pkg.Type.field  (whole field of every object)
        tn = dotted_name(base)
        if tn is not None and tn.split('.')[0] not in ev.env:
            try:
                ty = resolve_type(w, tn, ev.pkg)
                if w.prog.kind(ty) == 'struct':
                    return [(('f', ty, ast[2]), None)]
            except SpecError:
                pass
        v = ev.ev(base)
        sp = w.prog.struct_of_ptr(v.ty)
        if sp is None:
            raise SpecError('assigns: field of non-pointer %s' % v.ty)
        return [(('f', sp[0], ast[2]), v.t)]
    if k == 'call':
        name, args = ast[1], ast[2]
        if name == 'elems':
            # elems(s): backing array of slice s ; elems("T") all arrays of element type T
            if args[0][0] == 'str':
                ty = resolve_type(w, args[0][1], ev.pkg)
                return [(('el', ty), None)]
            v = ev.ev(args[0])
            uk, e = w.prog.under(v.ty)
            return [(('el', e['elem']), S.arr(v.t))]
        if name == 'mapof':
            if args[0][0] == 'str':
                ty = resolve_type(w, args[0][1], ev.pkg)
                return [((kk, ty), None) for kk in ('mdom', 'mval', 'msize')]
            v = ev.ev(args[0])
            return [((kk, v.ty), v.t) for kk in ('mdom', 'mval', 'msize')]
        if name == 'cell':
            if args[0][0] == 'id' and not isinstance(ev.env.get(args[0][1]), LValue):
                v = ev.ev(args[0])      # a pointer-typed parameter: the cell it points to
                uk, e = w.prog.under(v.ty)
                if e['kind'] == 'ptr':
                    return [(('cell', e['elem']), v.t)]
            v = X_lvalue(ev, args[0])
            return [(('cell', v.data[0]), v.data[1])]
        if name == 'global':
            nm = args[0][1]
            return [(('g', ev.pkg, nm), None)]
        if name == 'ghost':
            nm = args[0][1]
            found = []
            for key in list(X.V.h0.keys()) + list(ev.heap.d.keys()):
                if key[0] == 'ghost' and key[1] == nm and key not in found:
                    found.append(key)
            if not found:
                from .externals import bs_keys
                found = [k_ for k_ in bs_keys() if k_[1] == nm]
            if found:
                return [(key, None) for key in found]
            return [(('ghost', nm, z3.IntSort()), None)]
        if name == 'allfields':
            ty = resolve_type(w, args[0][1], ev.pkg)
            return [(('f', ty, f['name']), None) for f in w.struct_fields(ty)]
        if name == 'content':
            # content(b): the abstract content of the bytes.Buffer b (a *bytes.Buffer or a local bytes.Buffer variable)
            from .externals import buf_key
            a0 = args[0]
            lvv = ev.env.get(a0[1]) if a0[0] == 'id' else None
            if isinstance(lvv, LValue) and lvv.kind in ('cell', 'obj'):
                return [(buf_key(w), lvv.data[1] if lvv.kind == 'cell' else lvv.data[-1])]
            v = ev.ev(a0)
            return [(buf_key(w), v.t)]
        if name == 'stream':
            # stream(r): the abstract rune stream behind the *bufio.Reader r
            from .externals import rd_keys
            v = ev.ev(args[0])
            return [(k_, v.t) for k_ in rd_keys()]
    if k == 'id':
        v = ev.env.get(ast[1])
        if isinstance(v, LValue) and v.kind == 'cell':
            return [(('cell', v.data[0]), v.data[1])]
    raise SpecError('cannot interpret assigns item %r' % (ast,))


def dotted_name(ast):
    if ast[0] == 'id':
        return ast[1]
    if ast[0] == 'field':
        b = dotted_name(ast[1])
        return None if b is None else b + '.' + ast[2]
    return None


def X_lvalue(ev, ast):
    if ast[0] == 'id':
        v = ev.env.get(ast[1])
        if isinstance(v, LValue):
            return v
    raise SpecError('cell() needs an addressable variable')


def alloc_spaces(X, names, pkg):
    """allocates clause -> list of (alloc key, [heap keys whose fresh part is unconstrained])"""
    w = X.w
    out = []
    for n in names:
        if n.startswith('[]'):
            ty = resolve_type(w, n[2:], pkg)
            out.append((('alloc', 'arr'), [('el', ty)]))
        elif n.startswith('map['):
            ty = resolve_type(w, n, pkg)
            out.append((('alloc', 'map'), [('mdom', ty), ('mval', ty), ('msize', ty)]))
        elif n.startswith('cell:'):
            ty = resolve_type(w, n[5:], pkg)
            out.append((('alloc', 'cell:' + ty), [('cell', ty)]))
        elif n == 'iface':
            out.append((('alloc', 'iface'), []))
        elif n == 'chan':
            from .chans import gk_arr
            out.append((('alloc', 'chan'), [gk_arr('sent_on'), gk_arr('closed_on'), gk_arr('recv_on')]))
        else:
            ty = resolve_type(w, n, pkg)
            hk = [('f', ty, f['name']) for f in w.struct_fields(ty)] if w.sort(ty) != w.Opaque else []
            gs = X.V.externals.get('ghostspace:' + ty)
            if gs is not None:
                hk = list(gs())
            out.append((('alloc', ty), hk))
    return out


def alloc_key_of(key):
    if key[0] == 'f':
        return ('alloc', key[1])
    if key[0] == 'el':
        return ('alloc', 'arr')
    if key[0] in ('mdom', 'mval', 'msize'):
        return ('alloc', 'map')
    if key[0] == 'cell':
        return ('alloc', 'cell:' + key[1])
    if key[0] == 'ghost' and len(key) > 3:
        return ('alloc', key[3])
    return None


def prog_funcs(X):
    return X.w.prog.funcs


def bind_args(X, params, argv):
    env = {}
    for (pn, pt), a in zip(params, argv):
        if isinstance(a, LValue) and a.kind == 'cell' and not a.path and pt is not None:
            env[pn] = SV(a.data[1], pt)      # address of a variable: the parameter is that (non-nil) pointer
        elif isinstance(a, LValue):
            env[pn] = a
        elif isinstance(a, FuncVal):
            env[pn] = SV(z3.IntVal(1), pt)
        elif z3.is_expr(a):
            env[pn] = SV(a, pt)
    return env


def contract_call(X, ins, key, c, argv, iface_sig=None):
    V = X.V
    w = X.w
    V.used_contracts = getattr(V, 'used_contracts', set())
    V.used_contracts.add(key)
    params, results, pkg = callee_signature(X, key, iface_sig)
    if iface_sig is not None:
        params = [('self', ins['iface'])] + params[1:]
    env = bind_args(X, params, argv)
    pre = X.heap.copy()
    ev = SpecEval(V, pkg, env, pre, old=pre)
    ev.in_callee = True
    hyps_before_call_ = len(V.hyps)
    X._assumption_points = getattr(V, 'assumption_points', None)
    if X._assumption_points is None:
        V.assumption_points = X._assumption_points = []
    short = key
    try:
        for k, (lab, ast, txt) in enumerate(c['requires']):
            X.oblige('pre', ev.boolean(ast), ins['pos'], label='%s.%s' % (short, lab or k), text=txt)
        # termination of recursion
        if key == X.V.fnkey and c.get('decreases') is not None and X.V.entry_variant is not None:
            nv = ev.ev(c['decreases'][0]).t
            X.oblige('decreases', z3.And(X.V.entry_variant >= 0, nv < X.V.entry_variant), ins['pos'], label='rec', text=c['decreases'][1])
        # havoc
        post = pre.copy()
        tag = 'c%d' % w.fresh_n
        allocs = alloc_spaces(X, c['allocates'], pkg)
        fresh_keys = {}
        for (ak, hkeys) in allocs:
            na = V.fresh_heap_const(ak, tag)
            X.hyp(na >= pre.get(ak))
            post.set(ak, na)
            for hk in hkeys:
                fresh_keys[hk] = ak
        targets = {}
        for (ast, txt) in (c['assigns'] or []):
            for (hk, loc) in assign_targets(X, ast, ev):
                targets.setdefault(hk, []).append(loc)
        if c['assigns'] is None and key in prog_funcs(X) and prog_funcs(X)[key]['blocks']:
            # a contract without an assigns clause says nothing about the frame: everything the body (and its
            # callees, through their own contracts) may write is havocked
            from .modset import func_modset
            saved = V.contracts['funcs'].pop(key)
            try:
                for hk in func_modset(V, key, [X.fnkey, key]):
                    targets.setdefault(hk, []).append(None)
            finally:
                V.contracts['funcs'][key] = saved
        for hk in set(list(targets.keys()) + list(fresh_keys.keys())):
            locs = targets.get(hk)
            oldv = pre.get(hk)
            if hk[0] in ('g', 'alloc') or (hk[0] == 'ghost' and len(hk) <= 3):
                post.set(hk, V.fresh_heap_const(hk, tag))
                continue
            nv = V.fresh_heap_const(hk, tag)
            ak = alloc_key_of(hk)
            r = z3.Const('fr_r', I)
            if locs is not None and any(l is None for l in locs):
                post.set(hk, nv)
                continue
            conds = []
            if locs:
                conds += [r != l for l in locs]
            if hk in fresh_keys:
                conds.append(r <= pre.get(ak))
            X.hyp(z3.ForAll([r], z3.Implies(z3.And(*conds) if conds else z3.BoolVal(True), nv[r] == oldv[r]), patterns=[nv[r]]))
            post.set(hk, nv)
        for (pk_, pa_) in getattr(V, 'private_arrays', ()):
            a_, b_ = post.get(pk_), pre.get(pk_)
            if not a_.eq(b_):
                X.hyp(a_[pa_] == b_[pa_])
        # function-typed arguments: the callee may call them any number of times
        from .modset import func_modset
        for a in argv:
            if isinstance(a, FuncVal) and a.key and a.key in w.prog.funcs:
                for hk in sorted(func_modset(V, a.key, [X.fnkey, a.key]), key=str):
                    nv = V.fresh_heap_const(hk, tag + 'cb')
                    if hk[0] == 'alloc':
                        X.hyp(nv >= post.get(hk))
                    post.set(hk, nv)
                V.notes.append('callback %s passed to %s: its effects are havocked (called any number of times)' % (a.key, key))
        X.heap = post
        from .symex import heap_typing_fact
        for hk in list(post.d.keys()):
            if not post.get(hk).eq(pre.get(hk)):
                f_ = heap_typing_fact(V, post, hk, post.get(hk))
                if f_ is not None:
                    X.hyp(f_)
        # results
        res = []
        renv = dict(env)
        rsv = []
        for i, (rn, rt) in enumerate(results):
            rv = w.fresh('ret_%s' % (rn or 'r%d' % i), w.sort(rt))
            res.append(rv)
            for f in well_typed(V, post, rv, rt):
                X.hyp(f)
            sv = SV(rv, rt)
            rsv.append(sv)
            if rn and rn != '_':
                renv[rn] = sv
        if c.get('ghostsets'):
            from .verify import apply_ghostsets
            apply_ghostsets(V, c, pkg, renv, post, pre, rsv, z3.BoolVal(True), hyp=X.hyp)
        ev2 = SpecEval(V, pkg, renv, post, old=pre, results=rsv)
        ev2.in_callee = True
        topc = V.contracts['funcs'].get(V.fnkey) or {}
        light = 'lightcalls' in topc.get('flags', ())
        ante_ = []
        for k, (lab, ast, txt) in enumerate(c['ensures']):
            if light and lab and lab.startswith(('inv', 'own', 'orientation', 'hint', 'nobody', 'no_branch')):
                continue     # flag lightcalls: the caller does not reason about the global invariants; assume less
            if ('ncalls_' in txt or 'fncalls_' in txt) and not os.environ.get('GOVC_TEST_ASSUME_NCALLS'):
                # call counters are bookkeeping of the function being verified: a callee's statement about its own
                # counters says nothing about the caller's (assuming it would equate x with x+1)
                continue
            X.hyp(ev2.boolean(ast))
            if X.top and ast[0] == 'bin' and ast[1] == '==>':
                try:
                    ante_.append((lab or str(k), ev2.boolean(ast[2])))
                except SpecError:
                    pass
        if X.top and 'noreturn' not in c['flags']:
            # vacuity guard: what was assumed about this call must not refute a state that was not refutable before,
            # neither as a whole nor in any of the cases its conditional postconditions distinguish
            V.assumption_points.append(('contract of %s assumed at %s' % (key, ins.get('pos', '')), X.reach, V.cur_block, hyps_before_call_, len(V.hyps), None))
            for (lab_, a_) in ante_:
                V.assumption_points.append(('case [%s] of the contract of %s assumed at %s' % (lab_, key, ins.get('pos', '')), X.reach, V.cur_block, hyps_before_call_, len(V.hyps), a_))
        if 'noreturn' in c['flags']:
            X.hyp(z3.BoolVal(False))
            X.dead = True
    except SpecError as e:
        raise OutOfSubset('contract of %s at call in %s: %s' % (key, X.fnkey, e))
    setres(X, ins, res)


# ---------------------------------------------------------------------- builtins
def builtin_call(X, ins, name):
    w = X.w
    S = w.Slice
    args = ins['args']
    if name == 'len' or name == 'cap':
        a = args[0]
        v = X.term(a)
        uk, e = w.prog.under(a['type'])
        if e['kind'] == 'slice':
            r = S.len(v) if name == 'len' else S.cap(v)
        elif e['kind'] == 'basic':
            r = w.strlen(v)
        elif e['kind'] == 'map':
            r = z3.If(v == 0, 0, X.heap.get(('msize', a['type']))[v])
        elif e['kind'] == 'array':
            r = z3.IntVal(e['len'])
        elif e['kind'] == 'chan':
            r = w.fresh('chanlen', I)
            X.hyp(r >= 0)
        else:
            raise OutOfSubset('len of ' + a['type'])
        X.env[ins['name']] = r
        return
    if name == 'append':
        return do_append(X, ins)
    if name == 'copy':
        return do_copy(X, ins)
    if name == 'delete':
        mo = args[0]
        mt = mo['type']
        m = X.term(mo)
        k = X.term(args[1])
        dom = X.heap.get(('mdom', mt))
        size = X.heap.get(('msize', mt))
        present = z3.And(m != 0, dom[m][k])
        X.heap.set(('msize', mt), z3.Store(size, m, size[m] - z3.If(present, 1, 0)))
        X.heap.set(('mdom', mt), z3.Store(dom, m, z3.Store(dom[m], k, z3.BoolVal(False))))
        return
    if name in ('print', 'println'):
        return
    if name == 'ssa:wrapnilchk':
        X.env[ins['name']] = X.val(args[0])
        return
    if name in ('min', 'max'):
        x, y = X.term(args[0]), X.term(args[1])
        X.env[ins['name']] = z3.If(x <= y, x, y) if name == 'min' else z3.If(x >= y, x, y)
        return
    if name == 'close':
        from .chans import do_close
        return do_close(X, ins)
    raise OutOfSubset('builtin ' + name)


def do_append(X, ins):
    w = X.w
    S = w.Slice
    a0, a1 = ins['args']
    s = X.term(a0)
    uk, e = w.prog.under(ins['type'])
    el = e['elem']
    key = ('el', el)
    j = z3.Const('ap_j', I)
    n = S.len(s)
    if w.is_string(a1['type']):
        raise OutOfSubset('append(bytes, string...)')
    t = X.term(a1)
    k = S.len(t)
    E = X.heap.get(key)
    fits = n + k <= S.cap(s)
    newid = X.alloc_id('arr')
    olds = E[S.arr(s)]
    oldt = E[S.arr(t)]
    so = S.off(s)
    to = S.off(t)
    # in place: positions so+n .. so+n+k-1 receive t[0..k-1]  (index form, DESIGN 1.6)
    A_in = w.fresh('ap_in', z3.ArraySort(I, w.sort(el)))
    X.hyp(z3.ForAll([j], A_in[j] == z3.If(z3.And(j >= so + n, j < so + n + k), oldt[to + (j - so - n)], olds[j]), patterns=[A_in[j]]))
    A_new = w.fresh('ap_new', z3.ArraySort(I, w.sort(el)))
    X.hyp(z3.ForAll([j], z3.Implies(z3.And(j >= 0, j < n + k), A_new[j] == z3.If(j < n, olds[so + j], oldt[to + (j - n)])), patterns=[A_new[j]]))
    X.hyp(z3.ForAll([j], z3.Implies(z3.Or(j < 0, j >= n + k), A_new[j] == w.zero(el)), patterns=[A_new[j]]))
    ncap = w.fresh('ap_cap', I)
    X.hyp(ncap >= n + k)
    E2 = z3.If(fits, z3.Store(E, S.arr(s), A_in), z3.Store(E, newid, A_new))
    # appending nothing to a nil slice yields nil
    res = z3.If(fits, S.mk_slice(S.arr(s), so, n + k, S.cap(s)), S.mk_slice(newid, 0, n + k, ncap))
    nh = X.V.fresh_heap_const(key, X.tag + 'ap')
    X.hyp(nh == E2)
    X.heap.set(key, nh)
    r = w.fresh('append', S)
    X.hyp(r == res)
    # consequences of the definition above, stated over the result slice with a trigger on its elements
    # (the form contracts use): element j of the result is element j of s, or element j-len(s) of t
    ixf = w.uf('ix', I, I, I)
    w.ix_used = True
    el_r = nh[S.arr(r)][ixf(S.off(r), j)]
    # two triggers: the new element (to learn what it is) and the old element (to learn where it went)
    X.hyp(z3.ForAll([j], z3.Implies(z3.And(j >= 0, j < n + k),
                                    el_r == z3.If(j < n, olds[ixf(so, j)], oldt[ixf(to, j - n)])), patterns=[el_r, olds[ixf(so, j)]]))
    # ground instance for the first appended element (gives the solver the term result[len(s)] to work with)
    X.hyp(z3.Implies(k >= 1, nh[S.arr(r)][ixf(S.off(r), n)] == oldt[ixf(to, z3.IntVal(0))]))
    X.hyp(z3.And(S.len(r) == n + k, S.cap(r) >= n + k, z3.Implies(n + k > 0, S.arr(r) != 0)))
    X.env[ins['name']] = r


def do_copy(X, ins):
    w = X.w
    S = w.Slice
    a0, a1 = ins['args']
    d = X.term(a0)
    uk, e = w.prog.under(a0['type'])
    el = e['elem']
    key = ('el', el)
    if w.is_string(a1['type']):
        raise OutOfSubset('copy(bytes, string)')
    s = X.term(a1)
    k = z3.If(S.len(d) <= S.len(s), S.len(d), S.len(s))
    E = X.heap.get(key)
    j = z3.Const('cp_j', I)
    A = w.fresh('cp', z3.ArraySort(I, w.sort(el)))
    do_, so = S.off(d), S.off(s)
    X.hyp(z3.ForAll([j], A[j] == z3.If(z3.And(j >= do_, j < do_ + k), E[S.arr(s)][so + (j - do_)], E[S.arr(d)][j]), patterns=[A[j]]))
    nh = X.V.fresh_heap_const(key, X.tag + 'cp')
    X.hyp(nh == z3.Store(E, S.arr(d), A))
    X.heap.set(key, nh)
    if ins.get('name'):
        X.env[ins['name']] = k
