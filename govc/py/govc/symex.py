"""Symbolic execution of go/ssa functions into named proof obligations (passive, block-based encoding)."""
import re
import z3
from .world import OutOfSubset, LValue, FuncVal
from .heap import Heap, Verifier
from .ir import analyze_cfg
from .speceval import SpecEval, SV, resolve_type
from .spec import SpecError

I0 = z3.IntVal(0)
MAX_INLINE_DEPTH = 6


# ---------------------------------------------------------------------- lvalues
def _path_get(w, tk, term, path):
    for fname in path:
        i, f = w.field_index(tk, fname)
        term = w.struct_get(tk, term, i)
        tk = f['type']
    return term


def _path_set(w, tk, term, path, val):
    if not path:
        return val
    i, f = w.field_index(tk, path[0])
    inner = w.struct_get(tk, term, i)
    return w.struct_set(tk, term, i, _path_set(w, f['type'], inner, path[1:], val))


def lvalue_base_type(V, lv):
    w = V.world
    if lv.kind == 'fld':
        return w.field_index(lv.data[0], lv.data[2])[1]['type']
    if lv.kind == 'cell':
        return lv.data[0]
    if lv.kind == 'idx':
        return lv.data[0]
    if lv.kind == 'global':
        return V.global_type(lv.data[0], lv.data[1])
    raise OutOfSubset('lvalue kind')


def load_base(V, heap, lv):
    w = V.world
    S = w.Slice
    if lv.kind == 'fld':
        sname, ref, fname = lv.data
        return heap.get(('f', sname, fname))[ref]
    if lv.kind == 'cell':
        ty, ref = lv.data
        return heap.get(('cell', ty))[ref]
    if lv.kind == 'idx':
        ty, s, i = lv.data
        return heap.get(('el', ty))[S.arr(s)][w.ix(S.off(s), i)]
    if lv.kind == 'global':
        return heap.get(('g', lv.data[0], lv.data[1]))
    raise OutOfSubset('lvalue kind')


def store_base(V, heap, lv, val):
    w = V.world
    S = w.Slice
    if lv.kind == 'fld':
        sname, ref, fname = lv.data
        key = ('f', sname, fname)
        heap.set(key, z3.Store(heap.get(key), ref, val))
    elif lv.kind == 'cell':
        ty, ref = lv.data
        key = ('cell', ty)
        heap.set(key, z3.Store(heap.get(key), ref, val))
    elif lv.kind == 'idx':
        ty, s, i = lv.data
        key = ('el', ty)
        E = heap.get(key)
        heap.set(key, z3.Store(E, S.arr(s), z3.Store(E[S.arr(s)], w.ix(S.off(s), i), val)))
    elif lv.kind == 'global':
        heap.set(('g', lv.data[0], lv.data[1]), val)
    else:
        raise OutOfSubset('lvalue kind')


def load_lvalue(V, heap, lv):
    base = load_base(V, heap, lv)
    if lv.path:
        return _path_get(V.world, lvalue_base_type(V, lv), base, lv.path)
    return base


def store_lvalue(V, heap, lv, val):
    if lv.path:
        bt = lvalue_base_type(V, lv)
        base = load_base(V, heap, lv)
        val = _path_set(V.world, bt, base, lv.path, val)
    store_base(V, heap, lv, val)


# ---------------------------------------------------------------------- typing facts
def well_typed(V, heap, term, tk, depth=0):
    """facts that hold of every value of Go type tk in a type-safe heap"""
    w = V.world
    uk, e = w.prog.under(tk)
    kind = e['kind']
    out = []
    if kind == 'basic':
        if w.is_unsigned(tk):
            out.append(term >= 0)
    elif kind == 'ptr':
        sp = w.prog.struct_of_ptr(tk)
        if sp is not None:
            out.append(z3.And(term >= 0, term <= heap.get(('alloc', sp[0]))))
        else:
            out.append(z3.And(term >= 0, term <= heap.get(('alloc', 'cell:' + e['elem']))))
    elif kind == 'slice':
        S = w.Slice
        out.append(z3.And(S.arr(term) >= 0, S.arr(term) <= heap.get(('alloc', 'arr')), S.off(term) >= 0,
                          S.len(term) >= 0, S.len(term) <= S.cap(term),
                          z3.Implies(S.arr(term) == 0, S.cap(term) == 0)))
    elif kind == 'map':
        out.append(z3.And(term >= 0, term <= heap.get(('alloc', 'map'))))
        out.append(heap.get(('msize', tk))[term] >= 0)
    elif kind == 'chan':
        out.append(z3.And(term >= 0, term <= heap.get(('alloc', 'chan'))))
    elif kind == 'iface':
        If = w.Iface
        out.append(z3.And(If.tag(term) >= 0, z3.Implies(If.tag(term) == 0, If.ref(term) == 0)))
    elif kind == 'struct' and depth < 2:
        if w.sort(tk) != w.Opaque:
            for i, f in enumerate(e['fields']):
                try:
                    out += well_typed(V, heap, w.struct_get(tk, term, i), f['type'], depth + 1)
                except OutOfSubset:
                    pass
    return out


def heap_typing_fact(V, heap, key, const):
    """type safety of a whole heap component: every pointer / slice / map reference stored in it refers to an object
    allocated in the state `heap` (allocation counters only grow, so this holds of every reachable Go heap)"""
    w = V.world
    I_ = z3.IntSort()
    r = z3.Const('ht_r', I_)
    i = z3.Const('ht_i', I_)
    try:
        if key[0] == 'f':
            ty = w.field_index(key[1], key[2])[1]['type']
            term = const[r]
            pat = const[r]
            vs = [r]
        elif key[0] == 'cell':
            ty = key[1]
            term = const[r]
            pat = const[r]
            vs = [r]
        elif key[0] == 'el':
            ty = key[1]
            term = const[r][i]
            pat = const[r][i]
            vs = [r, i]
        else:
            return None
        if w.prog.kind(ty) not in ('ptr', 'slice', 'map', 'chan'):
            return None
        facts = well_typed(V, heap, term, ty)
    except (OutOfSubset, KeyError):
        return None
    if not facts:
        return None
    return z3.ForAll(vs, z3.And(*facts), patterns=[pat])


class LoopState:
    pass


class Exec:
    seq = 0

    def __init__(self, V, fnkey, depth=0):
        self.V = V
        self.w = V.world
        self.fnkey = fnkey
        prog = self.w.prog
        if fnkey not in prog.funcs:
            raise OutOfSubset('no SSA for ' + fnkey)
        self.fn = prog.funcs[fnkey]
        if not self.fn['blocks']:
            raise OutOfSubset('function without body ' + fnkey)
        self.cfg = cfg_of(prog, fnkey)
        self.depth = depth
        self.env = {}
        Exec.seq += 1
        self.tag = '%s%d' % (self.fn['name'].replace('$', '_'), Exec.seq)
        self.contract = V.contracts['funcs'].get(fnkey)
        p = self.fn
        while p.get('pkg') is None and p.get('parent'):
            p = prog.funcs[p['parent']]
        self.pkg = p.get('pkg')
        self.localcells = set()
        self.cellrefs = {}
        self.defers = []
        self.returns = []
        self.dbg = {}         # block -> list of (index, var, operand, isaddr)
        self.top = depth == 0
        self.loopstate = {}
        self.entry_heap = None

    # ------------------------------------------------------------------ helpers
    def const(self, name, tk):
        return z3.Const('%s_%s' % (self.tag, name), self.w.sort(tk))

    def val(self, op):
        k = op['k']
        if k == 'const':
            return self.w.const(op)
        if k in ('reg', 'param', 'freevar'):
            if op['name'] not in self.env:
                raise OutOfSubset('use of undefined value %s in %s' % (op['name'], self.fnkey))
            return self.env[op['name']]
        if k == 'global':
            if op['pkg'] not in self.w.prog.packages:
                # variable of a package outside gotree (os.Stderr, ...): an opaque cell of its declared type
                self.V.ext_globals[(op['pkg'], op['name'])] = self.w.prog.types[op['type']]['elem']
            ty = self.V.global_type(op['pkg'], op['name'])
            return LValue('global', (op['pkg'], op['name']), ty)
        if k == 'func':
            return FuncVal(op['key'])
        if k == 'builtin':
            return ('builtin', op['name'])
        raise OutOfSubset('operand ' + str(op))

    def term(self, op):
        v = self.val(op)
        if isinstance(v, (LValue, FuncVal, tuple, list)):
            raise OutOfSubset('address/function value used as data (%s) in %s' % (op.get('name'), self.fnkey))
        return v

    def hyp(self, f):
        self.V.add_hyp(z3.Implies(self.reach, f) if not z3.is_true(self.reach) else f)

    def oblige(self, kind, goal, pos='', label=None, text=''):
        self.V.add_obl(kind, goal, self.reach, pos, label, text)
        if kind in ('nil', 'bounds', 'div0', 'typeassert', 'nilchan', 'sendclosed', 'closeclosed', 'pre'):
            # execution continues past this point only if the condition held (otherwise the program panicked or
            # blocked): later obligations may rely on it, so one missing fact is reported once, not as a cascade
            self.hyp(goal)

    def assume_typed(self, term, tk):
        for f in well_typed(self.V, self.heap, term, tk):
            self.hyp(f)

    def ptr_lvalue(self, op):
        """turn a pointer-typed operand into an LValue (for load/store)"""
        v = self.val(op)
        if isinstance(v, LValue):
            return v
        tk = op['type']
        uk, e = self.w.prog.under(tk)
        if e['kind'] != 'ptr':
            raise OutOfSubset('deref of non-pointer')
        el = e['elem']
        if self.w.prog.kind(el) == 'struct':
            return ('obj', el, v)
        return LValue('cell', (el, v), el)

    def is_local_cell(self, ref):
        return ref.get_id() in self.localcells

    def nonnil(self, ref, pos, what='nil'):
        self.oblige('nil', ref != 0, pos, text=what)

    # ------------------------------------------------------------------ struct objects
    def load_obj(self, sname, ref):
        w = self.w
        if w.sort(sname) == w.Opaque:
            return w.fresh('opaque', w.Opaque)
        vals = [self.heap.get(('f', sname, f['name']))[ref] for f in w.struct_fields(sname)]
        return w.struct_mk(sname, vals)

    def store_obj(self, sname, ref, val):
        w = self.w
        if w.sort(sname) == w.Opaque:
            return
        for i, f in enumerate(w.struct_fields(sname)):
            key = ('f', sname, f['name'])
            self.heap.set(key, z3.Store(self.heap.get(key), ref, w.struct_get(sname, val, i)))

    def alloc_obj(self, sname):
        key = ('alloc', sname)
        ref = self.heap.get(key) + 1
        r = self.w.fresh('new_' + sname.split('.')[-1], z3.IntSort())
        self.hyp(r == ref)
        self.heap.set(key, r)
        w = self.w
        if w.sort(sname) != w.Opaque:
            for f in w.struct_fields(sname):
                k2 = ('f', sname, f['name'])
                self.heap.set(k2, z3.Store(self.heap.get(k2), r, w.zero(f['type'])))
        return r

    def alloc_id(self, space):
        key = ('alloc', space)
        r = self.w.fresh('new_' + space.split(':')[0], z3.IntSort())
        self.hyp(r == self.heap.get(key) + 1)
        self.heap.set(key, r)
        return r

    # ------------------------------------------------------------------ main loop
    def run(self, args, heap, reach):
        if self.top:
            self.V.cur_exec = self
        from .instrs import exec_instr
        V = self.V
        fn = self.fn
        cfg = self.cfg
        blocks = fn['blocks']
        names = [p['name'] for p in fn['params']] + [p['name'] for p in fn['freevars']]
        if len(args) != len(names):
            raise OutOfSubset('arity mismatch calling ' + self.fnkey)
        for n, a in zip(names, args):
            self.env[n] = a
        self.entry_heap = heap.copy()
        reach_out = {}
        heap_out = {}
        edge = {}
        loops = cfg['loops']
        if loops and self.depth > 0 and self.contract is None:
            raise OutOfSubset('cannot inline function with loops: ' + self.fnkey)
        for b in cfg['order']:
            blk = blocks[b]
            if self.top:
                V.cur_block = b
            if b == 0:
                self.reach = reach
                self.heap = heap.copy()
            else:
                ins = [(p, edge[(p, b)]) for p in blk['preds'] if (p, b) in edge]
                if not ins:
                    continue
                rc = z3.Or(*[c for _, c in ins]) if len(ins) > 1 else ins[0][1]
                r = z3.Bool('%s_reach%d' % (self.tag, b))
                V.add_hyp(r == rc)
                self.reach = r
                self.heap = self.merge_heaps([(c, heap_out[p]) for p, c in ins])
                self.cur_ins = ins
            if b in loops:
                self.enter_loop(b, ins)
            self.block = b
            self.cond = None
            self.dead = False
            terminated = False
            for idx, ins_ in enumerate(blk['instrs']):
                op = ins_['op']
                self.cur_idx = idx
                if op == 'Phi':
                    if b in loops:
                        continue   # handled by enter_loop
                    self.do_phi(ins_, blk, ins)
                    continue
                if op == 'DebugRef':
                    self.dbg.setdefault(b, []).append((idx, ins_['var'], ins_['x'], ins_['isaddr']))
                    continue
                if op == 'If':
                    self.cond = self.term(ins_['cond'])
                    continue
                if op == 'Jump':
                    continue
                if op == 'Return':
                    if self.top and self.contract is not None and self.contract.get('returns'):
                        env_r = self.spec_env(self.resolve_names(b, upto_idx=idx))
                        rsv_ = []
                        for o_, rdecl in zip(ins_['results'], self.fn['results']):
                            try:
                                rsv_.append(SV(self.term(o_), rdecl['type']))
                            except OutOfSubset:
                                rsv_.append(None)
                        evR = SpecEval(V, self.pkg, env_r, self.heap, old=self.top_entry_heap(), results=rsv_)
                        for (lab, ast, txt) in self.contract['returns']:
                            mql_ = re.search(r'@L(\d+)$', lab or '')
                            if mql_ and int(mql_.group(1)) == 0:
                                # return@L0: the returns that leave from inside no loop
                                if any(x_ != h_ and x_ in self.cfg['dom'][b] for h_, l in self.cfg['loops'].items() for x_ in l['body']):
                                    continue
                            elif mql_:
                                lpq_ = [(h_, l) for h_, l in self.cfg['loops'].items() if l['ordinal'] == int(mql_.group(1))]
                                # a return leaves the loop, so it is never in the natural loop body: it belongs to loop k
                                # when a body block other than the head dominates it (code after the loop is dominated
                                # by the head only)
                                if not lpq_ or not any(x_ != lpq_[0][0] and x_ in self.cfg['dom'][b] for x_ in lpq_[0][1]['body']):
                                    continue
                            try:
                                self.oblige('return', evR.boolean(ast), ins_.get('pos', ''), label=lab or '0', text=txt)
                                V.return_clause_sites = getattr(V, 'return_clause_sites', {})
                                V.return_clause_sites[lab] = V.return_clause_sites.get(lab, 0) + 1
                            except SpecError as e:
                                # the clause names local variables that do not exist on this return path: it does
                                # not apply here (it must apply to at least one return, checked at the end)
                                if 'unknown identifier' not in str(e) and 'no such loop-carried variable' not in str(e):
                                    raise OutOfSubset('return clause in %s: %s' % (self.fnkey, e))
                    res = [self.term(o) if not isinstance(self.val(o), FuncVal) else z3.IntVal(0) for o in ins_['results']]
                    self.returns.append((self.reach, res, self.heap.copy()))
                    terminated = True
                    continue
                exec_instr(self, ins_)
                if self.dead:
                    terminated = True
                    break
            reach_out[b] = self.reach
            heap_out[b] = self.heap
            if terminated and not blk['succs']:
                continue
            succs = blk['succs']
            for k, s in enumerate(succs):
                if len(succs) == 2:
                    c = self.cond if k == 0 else z3.Not(self.cond)
                    ec = z3.And(self.reach, c)
                else:
                    ec = self.reach
                if self.dead:
                    ec = z3.BoolVal(False)
                if (b, s) in cfg['back']:
                    self.close_loop(s, b, ec)
                else:
                    edge[(b, s)] = ec
        # merge returns
        if not self.returns:
            return z3.BoolVal(False), [], heap
        if len(self.returns) == 1:
            return self.returns[0]
        rr = z3.Or(*[r for r, _, _ in self.returns])
        nres = len(self.returns[0][1])
        res = []
        for i in range(nres):
            t = self.returns[-1][1][i]
            for (r, vs, _) in reversed(self.returns[:-1]):
                t = z3.If(r, vs[i], t)
            res.append(t)
        self.reach = rr
        hp = self.merge_heaps([(r, h) for r, _, h in self.returns], use_ite=True)
        return rr, res, hp

    dead = False

    def merge_heaps(self, ins, use_ite=False):
        if len(ins) == 1:
            return ins[0][1].copy()
        keys = []
        for _, h in ins:
            for k in h.d:
                if k not in keys:
                    keys.append(k)
        out = Heap(self.V)
        for k in keys:
            vals = [h.get(k) for _, h in ins]
            if all(v.eq(vals[0]) for v in vals[1:]):
                out.set(k, vals[0])
                continue
            t = vals[-1]
            for (c, _), v in zip(reversed(ins[:-1]), reversed(vals[:-1])):
                t = z3.If(c, v, t)
            nv = self.V.fresh_heap_const(k, self.tag + 'j')
            self.V.add_hyp(nv == t)
            out.set(k, nv)
        return out

    def do_phi(self, ins_, blk, ins):
        preds = blk['preds']
        vals = []
        for (p, c) in ins:
            o = ins_['edges'][preds.index(p)]
            v = self.val(o)
            vals.append((c, v))
        if any(isinstance(v, (LValue, FuncVal)) for _, v in vals):
            if len(vals) == 1:
                self.env[ins_['name']] = vals[0][1]
                return
            raise OutOfSubset('phi over addresses/functions in ' + self.fnkey)
        t = vals[-1][1]
        for c, v in reversed(vals[:-1]):
            t = z3.If(c, v, t)
        nv = self.const(ins_['name'], ins_['type'])
        self.V.add_hyp(nv == t)
        self.env[ins_['name']] = nv

    # ------------------------------------------------------------------ name resolution for invariants
    def resolve_names(self, b, upto_idx=None):
        """source variable name -> operand, using the nearest dominating mention"""
        cfg = self.cfg
        blocks = self.fn['blocks']
        doms = cfg['dom'][b]
        # order dominators from b upward: larger dominator set = closer to b
        chain = sorted(doms, key=lambda x: -len(cfg['dom'][x]))
        found = {}
        for d in chain:
            instrs = blocks[d]['instrs']
            rng = range(len(instrs) - 1, -1, -1)
            for i in rng:
                if d == b and upto_idx is not None and i >= upto_idx:
                    continue
                x = instrs[i]
                if x['op'] == 'DebugRef':
                    if x['var'] not in found:
                        found[x['var']] = ('dbg', x['x'], x['isaddr'])
                elif x['op'] == 'Phi' and x.get('comment'):
                    if x['comment'] not in found:
                        found[x['comment']] = ('phi', {'k': 'reg', 'name': x['name'], 'type': x['type']}, False)
                    if x['comment'] == 'rangeindex' and d in cfg['loops']:
                        # rangeindexK: the hidden index of the range loop with ordinal K (visible in nested loops)
                        nk_ = 'rangeindex%d' % cfg['loops'][d]['ordinal']
                        if nk_ not in found:
                            found[nk_] = ('phi', {'k': 'reg', 'name': x['name'], 'type': x['type']}, False)
                elif x['op'] == 'Alloc' and x.get('comment') and x['comment'] not in ('complit', 'new', 'makeslice', 'varargs', 'slicelit', 'maplit') and not x['comment'].startswith('('):
                    # a local variable that lives in memory: its name denotes the address
                    if x['comment'] not in found:
                        found[x['comment']] = ('dbg', {'k': 'reg', 'name': x['name'], 'type': x['type']}, True)
        # a variable that lives in memory (go/ssa Alloc carrying its name) is always read through its cell, even
        # where the nearest debug mention is the expression that initialised it
        allocs = {}
        for bi, blk_ in enumerate(blocks):
            for x in blk_['instrs']:
                if x['op'] == 'Alloc' and x.get('comment') and not x['comment'].startswith('(') and x['comment'] not in ('complit', 'new', 'makeslice', 'varargs', 'slicelit', 'maplit'):
                    allocs.setdefault(x['comment'], []).append((bi, x))
        for nm, lst in allocs.items():
            if len(lst) == 1 and lst[0][0] in doms and nm in found and not found[nm][2]:
                x = lst[0][1]
                if found[nm][0] != 'phi':
                    found[nm] = ('dbg', {'k': 'reg', 'name': x['name'], 'type': x['type']}, True)
        for p in self.fn['params'] + self.fn['freevars']:
            if p['name'] not in found:
                found[p['name']] = ('param', {'k': 'param', 'name': p['name'], 'type': p['type']}, False)
        return found

    def spec_env(self, names, override=None):
        env = {}
        for n, (kind, op, isaddr) in names.items():
            if kind != 'headexpr' and op['k'] in ('reg', 'param', 'freevar') and op['name'] not in self.env and not (override and op['name'] in override):
                continue
            try:
                if kind == 'headexpr':
                    v = self.head_eval(op, override or {})
                elif override and op['k'] == 'reg' and op['name'] in override:
                    v = override[op['name']]
                else:
                    v = self.val(op)
            except OutOfSubset:
                continue
            ty = op.get('type')
            if kind == 'param' and n in [p['name'] for p in self.fn['freevars']]:
                isaddr = True
            if isaddr:
                if isinstance(v, LValue):
                    env[n] = v
                else:
                    uk, e = self.w.prog.under(ty)
                    if e['kind'] == 'ptr':
                        el = e['elem']
                        if self.w.prog.kind(el) == 'struct':
                            env[n] = SV(v, ty)   # struct local: treat name as pointer to it
                        else:
                            env[n] = LValue('cell', (el, v), el)
                continue
            if isinstance(v, (LValue, FuncVal, tuple, list)):
                continue
            env[n] = SV(v, ty)
        return env

    # ------------------------------------------------------------------ loops
    def loop_modset(self, h):
        from .modset import block_modset
        L = self.cfg['loops'][h]
        return block_modset(self.V, self.fnkey, L['body'])

    def enter_loop(self, h, ins):
        V = self.V
        w = self.w
        L = self.cfg['loops'][h]
        blk = self.fn['blocks'][h]
        preds = blk['preds']
        lc = None
        if self.contract is not None:
            lc = self.contract['loops'].get(L['ordinal'])
        if lc is None:
            lc = {'invariant': [], 'decreases': None, 'assigns': None, 'step': []}
        phis = [x for x in blk['instrs'] if x['op'] == 'Phi']
        # entry values of phis
        entry_vals = {}
        for ph in phis:
            vals = []
            for (p, c) in ins:
                vals.append((c, self.val(ph['edges'][preds.index(p)])))
            if any(isinstance(v, (LValue, FuncVal)) for _, v in vals):
                if len(vals) == 1:
                    entry_vals[ph['name']] = vals[0][1]
                    continue
                raise OutOfSubset('loop phi over addresses')
            t = vals[-1][1]
            for c, v in reversed(vals[:-1]):
                t = z3.If(c, v, t)
            entry_vals[ph['name']] = t
        names = self.resolve_names(h, upto_idx=0)
        # the phis of the head itself
        for ph in phis:
            if ph.get('comment'):
                names[ph['comment']] = ('phi', {'k': 'reg', 'name': ph['name'], 'type': ph['type']}, False)
        # source variables that are pure functions of the head's phis (the `i` of `for i, x := range s`
        # is rangeindex+1, computed in the head block): visible to invariants as that expression
        headdefs = {x.get('name') for x in blk['instrs'] if x.get('name') and x['op'] == 'BinOp'}
        for b2 in sorted(L['body']):
            for x in self.fn['blocks'][b2]['instrs']:
                if x['op'] == 'DebugRef' and x['var'] not in names and not x['isaddr'] and x['x']['k'] == 'reg' and x['x']['name'] in headdefs:
                    names[x['var']] = ('headexpr', x['x'], False)
        if self.top:
            # ghost(entered_Lk): how often loop k was reached from outside (a return clause can demand that the loop
            # was reached: the function did not leave before it)
            gke_ = ('ghost', 'entered_L%d' % L['ordinal'], z3.IntSort())
            self.heap.set(gke_, self.heap.get(gke_) + 1)
        entry_heap = self.heap.copy()
        env_entry = self.spec_env(names, override=entry_vals)
        st = LoopState()
        st.names = names
        st.lc = lc
        st.entry_heap = entry_heap
        st.env_entry = env_entry
        st.phis = phis
        st.ordinal = L['ordinal']
        self.loopstate[h] = st
        # auto invariants: monotone counters
        auto = []
        latch_vals = {}
        for ph in phis:
            for p in L['latches']:
                o = ph['edges'][preds.index(p)]
                if o['k'] == 'reg':
                    d = self.find_def(o['name'])
                    if d is not None and d['op'] == 'BinOp' and d['tok'] in ('+', '-') and d['x'].get('name') == ph['name'] and d['y']['k'] == 'const' and d['y']['vk'] == 'int':
                        step = int(d['y']['v'])
                        if step > 0:
                            auto.append((ph['name'], '>=' if d['tok'] == '+' else '<='))
        st.auto = auto
        # 1. invariants hold on entry
        evE = SpecEval(V, self.pkg, env_entry, entry_heap, old=self.top_entry_heap(), loop_old=(entry_heap, env_entry))
        for k, (lab, ast, txt) in enumerate(lc['invariant']):
            try:
                g = evE.boolean(ast)
            except SpecError as e:
                raise OutOfSubset('invariant of loop %d in %s: %s' % (L['ordinal'], self.fnkey, e))
            self.oblige('inv.init', g, label='L%d.%s' % (L['ordinal'], lab or k), text=txt)
        # 2. havoc
        st.locs = {}
        if lc['assigns'] is not None:
            from .calls import assign_targets
            targets = {}
            try:
                for (ast, txt) in lc['assigns']:
                    for (key, loc) in assign_targets(self, ast, evE):
                        targets.setdefault(key, []).append(loc)
            except SpecError as e:
                raise OutOfSubset('assigns of loop %d in %s: %s' % (L['ordinal'], self.fnkey, e))
            mod = set(targets.keys())
            # allocation counters and local temporaries touched in the body are always havocked
            for key in self.loop_modset(h):
                if key[0] == 'alloc' or (key[0] == 'cell') or (key[0] == 'ghost' and str(key[1]).startswith(('visited_', 'strpos_', 'ncalls_', 'fncalls_', 'entered_L'))):
                    mod.add(key)
            for key, locs in targets.items():
                if all(l is not None for l in locs) and (key[0] in ('f', 'el', 'cell', 'mdom', 'mval', 'msize') or (key[0] == 'ghost' and len(key) > 3)):
                    st.locs[key] = locs
        else:
            mod = self.loop_modset(h)
        st.mod = mod
        newheap = entry_heap.copy()
        fr = z3.Const('lf_r', z3.IntSort())
        for key in sorted(mod, key=str):
            nv = V.fresh_heap_const(key, '%sL%d' % (self.tag, L['ordinal']))
            if key[0] == 'alloc':
                self.hyp(nv >= entry_heap.get(key))
            if key in st.locs:
                oldv = entry_heap.get(key)
                self.hyp(z3.ForAll([fr], z3.Implies(z3.And(*[fr != l for l in st.locs[key]]), nv[fr] == oldv[fr]), patterns=[nv[fr]]))
            newheap.set(key, nv)
        # frame for objects allocated at loop entry is NOT automatic: invariants must state it
        self.heap = newheap
        for key in sorted(mod, key=str):
            f_ = heap_typing_fact(V, newheap, key, newheap.get(key))
            if f_ is not None:
                self.hyp(f_)
        for ph in phis:
            ev_ = entry_vals[ph['name']]
            if isinstance(ev_, (LValue, FuncVal)):
                self.env[ph['name']] = ev_
                continue
            c = self.const(ph['name'], ph['type'])
            self.env[ph['name']] = c
            self.assume_typed(c, ph['type'])
            if self.top and ph.get('comment'):
                V.loop_phi_vals = getattr(V, 'loop_phi_vals', {})
                V.loop_phi_vals[(L['ordinal'], ph['comment'])] = SV(c, ph['type'])
        for (pn, rel) in auto:
            ev_ = entry_vals[pn]
            self.hyp(self.env[pn] >= ev_ if rel == '>=' else self.env[pn] <= ev_)
        # range loops: the hidden index never exceeds the (loop-invariant) bound minus one
        for ph in phis:
            if ph.get('comment') != 'rangeindex':
                continue
            nxt = [x for x in blk['instrs'] if x['op'] == 'BinOp' and x['tok'] == '+' and x['x'].get('name') == ph['name']
                   and x['y']['k'] == 'const' and str(x['y'].get('v')) == '1']
            if not nxt:
                continue
            cmpi = [x for x in blk['instrs'] if x['op'] == 'BinOp' and x['tok'] == '<' and x['x'].get('name') == nxt[0]['name']]
            if not cmpi:
                continue
            bo = cmpi[0]['y']
            if bo['k'] == 'reg':
                d = self.find_def(bo['name'])
                inloop = any(bo['name'] == x.get('name') for b2 in L['body'] for x in self.fn['blocks'][b2]['instrs'])
                if inloop:
                    continue
            try:
                bound = self.term(bo)
            except OutOfSubset:
                continue
            ev_ = entry_vals[ph['name']]
            if z3.is_int_value(ev_) and ev_.as_long() == -1:
                self.hyp(z3.Implies(bound >= 0, self.env[ph['name']] <= bound - 1))
        if self.top and lc.get('complete'):
            bad_ = []
            for b_ in L['body']:
                if b_ == h:
                    continue
                for s_ in self.fn['blocks'][b_]['succs']:
                    if s_ in L['body']:
                        continue
                    tb_ = self.fn['blocks'][s_]
                    if tb_['succs'] or not tb_['instrs'] or tb_['instrs'][-1]['op'] not in ('Return', 'Panic'):
                        bad_.append((b_, s_))
            for lab_ in lc['complete']:
                V.add_obl('complete', z3.BoolVal(not bad_), z3.BoolVal(True), '', label='L%d.%s' % (st.ordinal, lab_),
                          text='loop %d is left only through its head or by returning (no break): %s' % (st.ordinal, 'ok' if not bad_ else 'early exit edges %s' % bad_))
        # 3. assume invariants
        env_head = self.spec_env(names)
        st.env_head = env_head
        st.head_heap = self.heap.copy()
        if self.top:
            # atexit(k, e): the loop is cut at its head, so the state in which it is left is this head state
            V.loop_head_states = getattr(V, 'loop_head_states', {})
            V.loop_head_states[str(L['ordinal'])] = (st.head_heap, dict(env_head))
        evH = SpecEval(V, self.pkg, env_head, self.heap, old=self.top_entry_heap(), loop_old=(entry_heap, env_entry))
        hb_ = len(V.hyps)
        for k, (lab, ast, txt) in enumerate(lc['invariant']):
            self.hyp(evH.boolean(ast))
        if self.top and lc['invariant']:
            V.assumption_points = getattr(V, 'assumption_points', [])
            V.assumption_points.append(('invariants of loop %d assumed at its head' % st.ordinal, self.reach, V.cur_block, hb_, len(V.hyps), None))
        if lc['decreases'] is not None:
            st.variant = evH.ev(lc['decreases'][0]).t
        else:
            st.variant = None
        st.entry_vals = entry_vals

    def head_eval(self, op, override):
        if op['k'] == 'const':
            return self.w.const(op)
        if op['k'] == 'reg':
            if op['name'] in override:
                return override[op['name']]
            d = self.find_def(op['name'])
            if d is not None and d['op'] == 'BinOp' and d['tok'] in ('+', '-'):
                x = self.head_eval(d['x'], override)
                y = self.head_eval(d['y'], override)
                return x + y if d['tok'] == '+' else x - y
            if d is not None and d['op'] == 'Phi' and op['name'] in self.env:
                return self.env[op['name']]
        return self.val(op)

    def top_entry_heap(self):
        return self.V.top_entry_heap

    def find_def(self, name):
        for blk in self.fn['blocks']:
            for x in blk['instrs']:
                if x.get('name') == name and x['op'] not in ('DebugRef',):
                    return x
        return None

    def close_loop(self, h, b, ec):
        V = self.V
        st = self.loopstate[h]
        blk = self.fn['blocks'][h]
        preds = blk['preds']
        latch_vals = {}
        for ph in st.phis:
            v = self.val(ph['edges'][preds.index(b)])
            latch_vals[ph['name']] = v
        save_reach = self.reach
        self.reach = ec
        env_l = self.spec_env(st.names, override=latch_vals)
        evL = SpecEval(V, self.pkg, env_l, self.heap, old=self.top_entry_heap(), loop_old=(st.entry_heap, st.env_entry))
        for k, (lab, ast, txt) in enumerate(st.lc['invariant']):
            self.oblige('inv.keep', evL.boolean(ast), label='L%d.%s' % (st.ordinal, lab or k), text=txt)
        if st.lc.get('step'):
            # per-iteration postconditions: latch state against the state at the loop head (atHead(e))
            names_l = self.resolve_names(b)
            for ph in st.phis:
                if ph.get('comment'):
                    names_l.pop(ph['comment'], None)
            env_step = self.spec_env(names_l)
            for k_, v_ in st.env_head.items():
                env_step.setdefault(k_, v_)
            evS = SpecEval(V, self.pkg, env_step, self.heap, old=self.top_entry_heap(), loop_old=(st.entry_heap, st.env_entry))
            evS.head = (st.head_heap, st.env_head)
            evS.latch = (self.heap, env_l)
            for k, (lab, ast, txt) in enumerate(st.lc['step']):
                try:
                    self.oblige('step', evS.boolean(ast), label='L%d.%s' % (st.ordinal, lab or k), text=txt)
                    V.step_clause_sites = getattr(V, 'step_clause_sites', {})
                    V.step_clause_sites[(st.ordinal, lab or k)] = V.step_clause_sites.get((st.ordinal, lab or k), 0) + 1
                except SpecError as e:
                    # names a variable that does not exist on this path through the body: not applicable to this back edge
                    if 'unknown identifier' not in str(e):
                        raise OutOfSubset('step clause of loop %d in %s: %s' % (st.ordinal, self.fnkey, e))
                    V.step_clause_skipped = getattr(V, 'step_clause_skipped', set())
                    V.step_clause_skipped.add((st.ordinal, lab or k))
        if st.variant is not None:
            nv = evL.ev(st.lc['decreases'][0]).t
            self.oblige('decreases', z3.And(st.variant >= 0, nv < st.variant), label='L%d' % st.ordinal, text=st.lc['decreases'][1])
        # frame of the loop's assigns if given explicitly
        if st.lc['assigns'] is not None:
            fr = z3.Const('lf_r', z3.IntSort())
            from .calls import alloc_key_of
            for key in self.heap.d:
                if self.heap.get(key).eq(st.head_heap.get(key)):
                    continue
                if key not in st.mod:
                    ak0 = alloc_key_of(key)
                    if ak0 is not None and key[0] != 'alloc':
                        # objects allocated inside the iteration are not constrained by the frame
                        g_ = z3.ForAll([fr], z3.Implies(fr <= st.head_heap.get(ak0), self.heap.get(key)[fr] == st.head_heap.get(key)[fr]))
                    else:
                        g_ = self.heap.get(key) == st.head_heap.get(key)
                    self.oblige('loopframe', g_, label='L%d.%s' % (st.ordinal, '_'.join(map(str, key))))
                elif key in st.locs:
                    ak = alloc_key_of(key)
                    conds = [fr != l for l in st.locs[key]]
                    if ak is not None:
                        # objects allocated inside the iteration are not constrained by the frame
                        conds.append(fr <= st.head_heap.get(ak))
                    self.oblige('loopframe', z3.ForAll([fr], z3.Implies(z3.And(*conds), self.heap.get(key)[fr] == st.head_heap.get(key)[fr])),
                                label='L%d.%s' % (st.ordinal, '_'.join(map(str, key))), text='loop assigns only the named locations')
        self.reach = save_reach

    def assigns_keys(self, items, ev):
        """key-level interpretation of an assigns list (for loops)"""
        from .calls import assign_targets
        keys = set()
        for (ast, txt) in items:
            for (key, loc) in assign_targets(self, ast, ev):
                keys.add(key)
        return keys


_cfg_cache = {}


def cfg_of(prog, fnkey):
    k = (id(prog), fnkey)
    if k not in _cfg_cache:
        _cfg_cache[k] = analyze_cfg(prog.funcs[fnkey])
    return _cfg_cache[k]
