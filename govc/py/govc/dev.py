"""development / check driver pieces: load IR + contracts, verify functions, solve in parallel"""
import glob
import json
import os
import sys
import time
from concurrent.futures import ProcessPoolExecutor
import multiprocessing
from .ir import Program
from .world import World, OutOfSubset
from .spec import parse_contract_text, merge_contracts
from .verify import gen_function, obligation_smt2, solve_text
from . import externals


def load_contracts(repo='/repo', extra=(), prog=None):
    cs = []
    for f in sorted(glob.glob(os.path.join(repo, '**', 'zz_verif_contracts*.go'), recursive=True)) + list(extra):
        cs.append(parse_contract_text(open(f).read(), f))
    c = merge_contracts(cs)
    if prog is not None:
        for k in list(c['funcs']):
            a = prog.resolve(k)
            if a != k:
                c['funcs'][a] = c['funcs'].pop(k)
    return c


_pool = None


def get_pool(jobs=16):
    global _pool
    if _pool is None:
        _pool = ProcessPoolExecutor(jobs, mp_context=multiprocessing.get_context('spawn'))
    return _pool


def verify_keys(prog, contracts, keys, timeout=10, workdir='/var/tmp/govc/smt', jobs=16, verbose=True):
    os.makedirs(workdir, exist_ok=True)
    results = []
    tasks = []
    for key in keys:
        world = World(prog)
        t0 = time.time()
        try:
            V = gen_function(world, contracts, externals.EXT, key)
        except OutOfSubset as e:
            results.append({'name': key + '#generable', 'func': key, 'verdict': 'out_of_subset', 'reason': str(e), 'time': 0})
            if verbose:
                print('OUT_OF_SUBSET', key, e)
            continue
        gt = time.time() - t0
        for ob in V.obls:
            smt = obligation_smt2(V, ob)
            tasks.append((key, ob, smt, V))
        if verbose:
            print('generated %d obligations for %s in %.1fs' % (len(V.obls), key, gt))
    ex = get_pool(jobs)
    futs = [ex.submit(solve_text, smt, timeout, workdir, ob.name, ('z3-5.1', 'z3-4.8', 'cvc5'), min(timeout, 4)) for (key, ob, smt, V) in tasks]
    if True:
        for (key, ob, smt, V), fu in zip(tasks, futs):
            r = fu.result()
            r.update({'name': ob.name, 'func': key, 'kind': ob.kind, 'pos': ob.pos, 'text': ob.text, 'size': len(smt)})
            results.append(r)
            if verbose:
                print('%-8s %-7s %6.2fs %s %s' % (r['verdict'], r.get('solver') or '-', r['time'], r['name'], (r.get('text') or '')[:60]))
    return results


if __name__ == '__main__':
    irf = sys.argv[1]
    prog = Program(irf)
    extra = [a for a in sys.argv[2:] if a.endswith('.go') or a.endswith('.spec')]
    keys = [a for a in sys.argv[2:] if a not in extra]
    contracts = load_contracts(repo=os.environ.get('VERIF_REPO', '/repo'), extra=extra, prog=prog)
    res = verify_keys(prog, contracts, [prog.resolve(k) for k in keys])
    bad = [r for r in res if r['verdict'] != 'unsat']
    print('%d obligations, %d not discharged' % (len(res), len(bad)))
