"""Robustness against harmless renamings (DESIGN.md section 11.2, "names").

Contracts name the parameters, results and local variables of the function they annotate.  A pure renaming of such a
variable must not raise an alarm.  `/verif/contracts/names.json` (written by tools/mknames.py from the unchanged tree,
next to the contracts) records, for every function under contract, its parameter / result / captured-variable names by
position and, for every local name, a *signature*: the sequence of definitions (operation, callee, type - never a
register number) its debug references point to.  When the IR of the tree under check is loaded, a name that the record
knows but the function no longer has is matched against the names the function has and the record does not know; if
exactly one of them has the same signature, the new name is treated as the old one (the IR is rewritten before any
contract is evaluated).  Anything else - no match, several matches - is left alone, and a clause that names a variable
that does not exist is reported as before.
"""
import json
import os

SIDE = os.path.join(os.path.dirname(os.path.dirname(os.path.dirname(os.path.dirname(os.path.abspath(__file__))))), 'contracts', 'names.json')


def def_sig(fn, defs, x):
    k = x.get('k')
    if k == 'reg':
        d = defs.get(x['name'])
        if d is None:
            return ('reg?',)
        return (d['op'], d.get('static') or d.get('invoke') or (d.get('callee') or {}).get('name') or '', str(d.get('tok', '')), str(d.get('field', '')),
                str(d.get('index', '')) if d['op'] == 'Extract' else '', d.get('type', ''))
    if k == 'param':
        return ('param', [p['name'] for p in fn.get('params', [])].index(x['name']) if x['name'] in [p['name'] for p in fn.get('params', [])] else -1)
    if k == 'freevar':
        return ('freevar', [p['name'] for p in fn.get('freevars', [])].index(x['name']) if x['name'] in [p['name'] for p in fn.get('freevars', [])] else -1)
    if k == 'const':
        return ('const', str(x.get('v')), x.get('type', ''))
    if k == 'global':
        return ('global', x.get('pkg'), x.get('name'))
    return (k,)


def record(fn):
    defs = {i['name']: i for b in fn['blocks'] for i in b['instrs'] if 'name' in i}
    loc = {}
    seq = []
    for b in fn['blocks']:
        for i in b['instrs']:
            if i['op'] == 'DebugRef':
                s = [str(i['isaddr'])] + [str(t) for t in def_sig(fn, defs, i['x'])]
                loc.setdefault(i['var'], []).append(s)
                seq.append([i['var'], s])
    return {'params': [p['name'] for p in fn.get('params', [])], 'freevars': [p['name'] for p in fn.get('freevars', [])],
            'results': [p.get('name', '') for p in fn.get('results', [])], 'locals': loc, 'seq': seq}


def _rewrite_operands(o, kind, ren):
    if isinstance(o, dict):
        if o.get('k') == kind and o.get('name') in ren:
            o['name'] = ren[o['name']]
        for v in o.values():
            _rewrite_operands(v, kind, ren)
    elif isinstance(o, list):
        for v in o:
            _rewrite_operands(v, kind, ren)


def apply(prog, path=SIDE):
    """rewrite renamed variables of the functions under contract back to the recorded names; returns {func: {new: old}}"""
    if not os.path.exists(path) or os.environ.get('GOVC_NO_NAMES'):
        return {}
    side = json.load(open(path))
    done = {}
    for key0, rec in side.items():
        key = prog.resolve(key0)        # closures of package-level literals are recorded under their stable alias
        fn = prog.funcs.get(key)
        if fn is None or not fn['blocks']:
            continue
        ren = {}
        # positional: parameters, captured variables, named results
        for fld, kind in (('params', 'param'), ('freevars', 'freevar')):
            cur = fn.get(fld, [])
            if len(cur) == len(rec[fld]):
                r = {c['name']: o for c, o in zip(cur, rec[fld]) if c['name'] != o and o}
                if r and len(set(r.values())) == len(r) and not (set(r.values()) & {c['name'] for c in cur if c['name'] not in r}):
                    for c in cur:
                        if c['name'] in r:
                            c['name'] = r[c['name']]
                    for b in fn['blocks']:
                        for i in b['instrs']:
                            _rewrite_operands(i, kind, r)
                    ren.update(r)
        cur = fn.get('results', [])
        if len(cur) == len(rec['results']):
            for c, o in zip(cur, rec['results']):
                if c.get('name') and o and c['name'] != o:
                    ren[c['name']] = o
                    c['name'] = o
        # locals: by signature
        now = record(fn)
        old_names = set(rec['locals'])
        cur_names = set(now['locals'])
        missing = old_names - cur_names - set(ren.values())
        extra = cur_names - old_names - set(ren)
        if missing and extra:
            if len(now['seq']) == len(rec['seq']) and all(a[1] == b[1] for a, b in zip(now['seq'], rec['seq'])):
                # the function differs by names only: align reference by reference
                m = {}
                ok = True
                for a, b in zip(now['seq'], rec['seq']):
                    if a[0] != b[0]:
                        if m.setdefault(a[0], b[0]) != b[0]:
                            ok = False
                if ok and len(set(m.values())) == len(m):
                    ren.update({n: o for n, o in m.items() if n in extra and o in missing})
            else:
                for o in sorted(missing):
                    cands = [n for n in sorted(extra) if now['locals'][n] == rec['locals'][o] and n not in ren]
                    others = [o2 for o2 in missing if o2 != o and rec['locals'][o2] == rec['locals'][o]]
                    if len(cands) == 1 and not others:
                        ren[cands[0]] = o
        if not ren:
            continue
        for b in fn['blocks']:
            for i in b['instrs']:
                if i['op'] == 'DebugRef' and i['var'] in ren:
                    i['var'] = ren[i['var']]
                if i.get('comment') in ren:
                    i['comment'] = ren[i['comment']]
        done[key] = ren
    return done
