"""Sorts, values and the logical encoding of Go types (DESIGN.md section 1.2)."""
import re
import z3
from fractions import Fraction


class OutOfSubset(Exception):
    pass


class LValue:
    """symbolic address: base kind + data + path of nested by-value struct fields"""
    __slots__ = ('kind', 'data', 'path', 'typ')

    def __init__(self, kind, data, typ, path=()):
        self.kind = kind      # 'fld' (structname, ref, fname) | 'cell' (elemtype, ref) | 'idx' (elemtype, slice, index) | 'global' (pkg, name)
        self.data = data
        self.path = tuple(path)
        self.typ = typ        # type key of the pointee

    def __repr__(self):
        return 'LValue(%s,%s,%s)' % (self.kind, self.data, self.path)


class FuncVal:
    def __init__(self, key, bindings=None):
        self.key = key
        self.bindings = bindings or []


class World:
    def __init__(self, prog):
        self.prog = prog
        self.Str = z3.DeclareSort('Str')
        S = z3.Datatype('Slice')
        S.declare('mk_slice', ('arr', z3.IntSort()), ('off', z3.IntSort()), ('len', z3.IntSort()), ('cap', z3.IntSort()))
        self.Slice = S.create()
        I = z3.Datatype('Iface')
        I.declare('mk_iface', ('tag', z3.IntSort()), ('ref', z3.IntSort()))
        self.Iface = I.create()
        self.struct_sorts = {}
        self.strlits = {}
        self.ufs = {}
        self.tags = {}
        self.fresh_n = 0
        self.used_axioms = []   # names of built-in axioms that were emitted
        self.Opaque = z3.DeclareSort('Opaque')

    # ------------------------------------------------------------------
    def fresh(self, name, sort):
        self.fresh_n += 1
        return z3.Const('%s!%d' % (name, self.fresh_n), sort)

    def uf(self, name, *sorts):
        if name not in self.ufs:
            self.ufs[name] = z3.Function(name, *sorts)
        return self.ufs[name]

    def tag(self, tk):
        if tk not in self.tags:
            self.tags[tk] = len(self.tags) + 1
        return self.tags[tk]

    def ix(self, off, i):
        """slice element position off+i, wrapped in an uninterpreted function so that quantified contracts over
        slice elements have an arithmetic-free trigger; its meaning is given by the axiom in string_axioms()"""
        if z3.is_int_value(off) and off.as_long() == 0:
            return i
        self.ix_used = True
        return self.uf('ix', z3.IntSort(), z3.IntSort(), z3.IntSort())(off, i)

    def fdiv(self, x, y):
        """float division: exact when the divisor is a numeral (linear), otherwise an uninterpreted function of both
        operands (the same on the code side and on the contract side), which keeps nonlinear real arithmetic out of the VCs"""
        if z3.is_rational_value(y) or z3.is_int_value(y):
            return x / y
        return self.uf('fdiv', z3.RealSort(), z3.RealSort(), z3.RealSort())(x, y)

    def strlit(self, s):
        if s not in self.strlits:
            self.strlits[s] = z3.Const('str!%d' % len(self.strlits), self.Str)
        return self.strlits[s]

    def strlen(self, t):
        return self.uf('strlen', self.Str, z3.IntSort())(t)

    def string_axioms(self):
        """facts about the string literals used so far"""
        out = []
        lits = list(self.strlits.items())
        if len(lits) > 1:
            out.append(z3.Distinct(*[c for _, c in lits]))
        for s, c in lits:
            out.append(self.strlen(c) == len(s.encode('utf-8')))
        if getattr(self, 'ix_used', False):
            a, b = z3.Ints('ix_a ix_b')
            f = self.ufs['ix']
            out.append(z3.ForAll([a, b], f(a, b) == a + b, patterns=[f(a, b)]))
        x = z3.Const('sx', self.Str)
        out.append(z3.ForAll([x], self.strlen(x) >= 0, patterns=[self.strlen(x)]))
        if '' in self.strlits:
            out.append(z3.ForAll([x], z3.Implies(self.strlen(x) == 0, x == self.strlits['']), patterns=[self.strlen(x)]))
        if 'str_cat' in self.ufs:
            y = z3.Const('sy', self.Str)
            cat = self.ufs['str_cat']
            out.append(z3.ForAll([x, y], self.strlen(cat(x, y)) == self.strlen(x) + self.strlen(y), patterns=[cat(x, y)]))
        return out

    # ------------------------------------------------------------------
    def sort(self, tk):
        p = self.prog
        e = p.types[tk]
        kind = e['kind']
        if kind == 'named':
            uk, ue = p.under(tk)
            if ue['kind'] == 'struct':
                return self.struct_sort(tk, ue)
            return self.sort(uk)
        if kind == 'basic':
            n = e['name']
            if n in ('bool', 'untyped bool'):
                return z3.BoolSort()
            if n in ('string', 'untyped string'):
                return self.Str
            if n.startswith('float') or n == 'untyped float':
                return z3.RealSort()
            if n.startswith('complex'):
                raise OutOfSubset('complex numbers')
            return z3.IntSort()
        if kind in ('ptr', 'map', 'chan', 'func'):
            return z3.IntSort()
        if kind == 'slice':
            return self.Slice
        if kind == 'iface':
            return self.Iface
        if kind == 'struct':
            return self.struct_sort(tk, e)
        if kind == 'array':
            return z3.ArraySort(z3.IntSort(), self.sort(e['elem']))
        if kind == 'tuple':
            return None
        raise OutOfSubset('sort of type %s (%s)' % (tk, kind))

    def struct_sort(self, name, e):
        if name in self.struct_sorts:
            return self.struct_sorts[name][0]
        if not e['fields']:
            self.struct_sorts[name] = (self.Opaque, None)
            return self.Opaque
        if name.startswith('sync.') or name.startswith('bytes.') or name.startswith('bufio.') or name.startswith('os.'):
            self.struct_sorts[name] = (self.Opaque, None)
            return self.Opaque
        sid = len(self.struct_sorts)
        dt = z3.Datatype('S_' + re.sub(r'[^A-Za-z0-9_]', '_', name))
        flds = []
        for i, f in enumerate(e['fields']):
            # constructor and accessor names are unique per sort: SMT-LIB text cannot disambiguate overloaded ones
            flds.append(('s%d_f%d_%s' % (sid, i, f['name']), self.sort(f['type'])))
        dt.declare('mk_s%d' % sid, *flds)
        s = dt.create()
        self.struct_sorts[name] = (s, e)
        return s

    def struct_fields(self, tk):
        uk, ue = self.prog.under(tk)
        assert ue['kind'] == 'struct', tk
        return ue['fields']

    def field_index(self, tk, fname):
        for i, f in enumerate(self.struct_fields(tk)):
            if f['name'] == fname:
                return i, f
        raise KeyError('%s has no field %s' % (tk, fname))

    def struct_get(self, tk, term, idx):
        s = self.sort(tk)
        if s == self.Opaque:
            raise OutOfSubset('field of opaque struct ' + tk)
        return s.accessor(0, idx)(term)

    def struct_set(self, tk, term, idx, val):
        s = self.sort(tk)
        n = s.constructor(0).arity()
        args = [val if i == idx else s.accessor(0, i)(term) for i in range(n)]
        return s.constructor(0)(*args)

    def struct_mk(self, tk, vals):
        s = self.sort(tk)
        if s == self.Opaque:
            return self.fresh('opaque', self.Opaque)
        return s.constructor(0)(*vals)

    # ------------------------------------------------------------------
    def zero(self, tk):
        p = self.prog
        uk, e = p.under(tk)
        kind = e['kind']
        if kind == 'basic':
            n = e['name']
            if 'bool' in n:
                return z3.BoolVal(False)
            if 'string' in n:
                return self.strlit('')
            if n.startswith('float') or n == 'untyped float':
                return z3.RealVal(0)
            return z3.IntVal(0)
        if kind in ('ptr', 'map', 'chan', 'func'):
            return z3.IntVal(0)
        if kind == 'slice':
            return self.Slice.mk_slice(0, 0, 0, 0)
        if kind == 'iface':
            return self.Iface.mk_iface(0, 0)
        if kind == 'struct':
            s = self.sort(tk)
            if s == self.Opaque:
                return self.uf('opaque_zero', self.Opaque)()
            return s.constructor(0)(*[self.zero(f['type']) for f in e['fields']])
        if kind == 'array':
            return z3.K(z3.IntSort(), self.zero(e['elem']))
        raise OutOfSubset('zero of ' + tk)

    def nil_slice(self):
        return self.Slice.mk_slice(0, 0, 0, 0)

    def nil_iface(self):
        return self.Iface.mk_iface(0, 0)

    def is_unsigned(self, tk):
        uk, e = self.prog.under(tk)
        return e['kind'] == 'basic' and (e['name'].startswith('uint') or e['name'] == 'byte')

    def is_int(self, tk):
        uk, e = self.prog.under(tk)
        if e['kind'] != 'basic':
            return False
        n = e['name']
        return n.startswith('int') or n.startswith('uint') or n in ('byte', 'rune', 'uintptr', 'untyped int', 'untyped rune')

    def is_float(self, tk):
        uk, e = self.prog.under(tk)
        return e['kind'] == 'basic' and (e['name'].startswith('float') or e['name'] == 'untyped float')

    def is_string(self, tk):
        uk, e = self.prog.under(tk)
        return e['kind'] == 'basic' and 'string' in e['name']

    def is_bool(self, tk):
        uk, e = self.prog.under(tk)
        return e['kind'] == 'basic' and 'bool' in e['name']

    def const(self, op):
        tk = op['type']
        vk = op['vk']
        if vk == 'nil':
            return self.zero(tk)
        v = op['v']
        if vk == 'bool':
            return z3.BoolVal(bool(v))
        if vk == 'string':
            return self.strlit(v)
        if vk in ('int', 'float', 'other'):
            if self.is_float(tk):
                return z3.RealVal(str(Fraction(v)))
            if vk == 'int':
                return z3.IntVal(int(v))
            fr = Fraction(v)
            if fr.denominator == 1:
                return z3.IntVal(fr.numerator)
            return z3.RealVal(str(fr))
        raise OutOfSubset('const ' + str(op))
