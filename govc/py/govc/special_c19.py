"""C19: complete symbolic execution of package cmd's initialisation (DESIGN.md section 4, C19).

Go runs the package-level variable initialisers of package cmd and then every init() in file-name
order; go/ssa puts exactly that sequence into the synthetic function `cmd.init`.  All of it is
straight-line code.  This module executes it over an abstract store (global variable -> value term),
with the trusted contract of spf13/pflag

    (*FlagSet).TVar[P](p *T, name string, [short string,] value T, usage string)
        ensures *p == value                     (pflag assigns the default at registration time)
        ghost   registry += (flagset, name, p, value)   (DefValue printed by --help is `value`)

and emits one obligation per registry entry:   store_final[p] == value
i.e. the value a command sees when the option is omitted is the documented default, after every
command has registered its options.  Obligations are discharged by the SMT solvers like all others.
"""
import re
import z3

VAR_RE = re.compile(r'^\(\*github\.com/spf13/pflag\.FlagSet\)\.(\w+?)Var(P?)$')
FS_RE = re.compile(r'^\(\*github\.com/spf13/cobra\.Command\)\.(Flags|PersistentFlags|LocalFlags)$')


class Unsupported(Exception):
    pass


class Walker:
    def __init__(self, prog):
        self.prog = prog
        self.store = {}          # (pkg, name) -> abstract value
        self.objname = {}        # object id -> global name it was stored to
        self.n = 0
        self.reg = []            # registrations
        self.walked = []
        self.problems = []

    def fresh(self, kind):
        self.n += 1
        return (kind, self.n)

    def val(self, env, op):
        k = op['k']
        if k == 'const':
            if op['vk'] == 'nil':
                return ('const', 'nil', None)
            return ('const', op['vk'], op['v'])
        if k == 'global':
            return ('gaddr', op['pkg'], op['name'])
        if k in ('reg', 'param', 'freevar'):
            return env.get(op['name'], ('unk', 'undef:' + op['name']))
        if k == 'func':
            return ('func', op['key'])
        return ('unk', str(op))

    def walk(self, key, args, depth=0):
        fn = self.prog.funcs[key]
        if depth > 8:
            raise Unsupported('call depth in ' + key)
        blocks = fn['blocks']
        if key != 'cmd.init' and len(blocks) != 1:
            raise Unsupported('%s is not straight-line code (%d blocks)' % (key, len(blocks)))
        env = {}
        for p, a in zip(fn['params'], args):
            env[p['name']] = a
        self.walked.append(key)
        ret = None
        for blk in blocks:
            for ins in blk['instrs']:
                op = ins['op']
                if op in ('DebugRef', 'If', 'Jump', 'RunDefers'):
                    continue
                if op == 'Return':
                    if ins['results']:
                        ret = self.val(env, ins['results'][0])
                    continue
                if op == 'Alloc':
                    env[ins['name']] = self.fresh('obj')
                elif op == 'Store':
                    a = self.val(env, ins['addr'])
                    v = self.val(env, ins['val'])
                    if a[0] == 'gaddr':
                        self.store[(a[1], a[2])] = v
                        if v[0] == 'obj':
                            self.objname.setdefault(v, a[2])
                    # stores into fresh objects (command literals) do not touch option variables
                elif op == 'UnOp':
                    x = self.val(env, ins['x'])
                    if ins['tok'] == '*' and x[0] == 'gaddr':
                        env[ins['name']] = self.store.get((x[1], x[2]), ('init0', x[1], x[2]))
                    else:
                        env[ins['name']] = self.fresh('unk')
                elif op == 'Call':
                    env[ins['name']] = self.call(env, ins, depth)
                elif op in ('Defer', 'Go', 'Send', 'MapUpdate', 'Panic'):
                    if key.startswith('cmd.init#') or key == 'cmd.init':
                        raise Unsupported('%s in %s' % (op, key))
                elif 'name' in ins:
                    env[ins['name']] = self.fresh('unk')
        return ret

    def call(self, env, ins, depth):
        st = ins.get('static')
        if st is None:
            return self.fresh('unk')
        args = [self.val(env, a) for a in ins['args']]
        m = FS_RE.match(st)
        if m:
            return ('fs', args[0], m.group(1))
        m = VAR_RE.match(st)
        if m:
            withshort = m.group(2) == 'P'
            fs, p, name = args[0], args[1], args[2]
            value = args[4] if withshort else args[3]
            usage = args[5] if withshort else args[4]
            if name[0] != 'const':
                raise Unsupported('flag name is not a constant at ' + ins.get('pos', ''))
            entry = {'fs': fs, 'name': name[2], 'target': p, 'value': value, 'kind': m.group(1), 'pos': ins.get('pos', ''),
                     'usage': usage[2] if usage[0] == 'const' else ''}
            self.reg.append(entry)
            if p[0] == 'gaddr':
                self.store[(p[1], p[2])] = value
            else:
                self.problems.append('option %s registered on a non-global variable at %s' % (name[2], ins.get('pos', '')))
            return None
        if st.startswith('(*github.com/spf13/pflag.FlagSet).'):
            meth = st.rsplit('.', 1)[1]
            # value-returning registrations (String, Bool, ...) own a private variable: cannot conflict
            return self.fresh('unk')
        if st in self.prog.funcs and self.prog.funcs[st]['blocks'] and (st.startswith('cmd.') and '$' not in st):
            # functions of package cmd called during initialisation (init#k, helpers such as addTBEFlags)
            return self.walk(st, args, depth + 1)
        return self.fresh('unk')

    def owner(self, fs):
        if fs[0] == 'fs':
            o = fs[1]
            nm = self.objname.get(o)
            if nm is None and o[0] == 'init0':
                nm = o[2]
            return '%s.%s' % (nm or str(o), fs[2])
        return str(fs)


def to_term(v, sort_hint, cache):
    """abstract value -> z3 term; unknown values are distinct uninterpreted constants"""
    if v[0] == 'const':
        vk, x = v[1], v[2]
        if vk == 'bool':
            return z3.BoolVal(bool(x))
        if vk == 'string':
            # string literals are interned: equal literals <-> equal integers (no Seq theory needed)
            return z3.IntVal(cache.setdefault(('strlit', x), 1000000 + len(cache)))
        if vk == 'int':
            if sort_hint == 'Float64':
                return z3.RealVal(int(x))
            return z3.IntVal(int(x))
        if vk in ('float', 'other'):
            from fractions import Fraction
            return z3.RealVal(str(Fraction(x)))
        if vk == 'nil':
            return z3.IntVal(0)
    key = repr(v)
    if key not in cache:
        so = {'Bool': z3.BoolSort(), 'Float64': z3.RealSort()}.get(sort_hint, z3.IntSort())
        cache[key] = z3.Const('u!%d' % len(cache), so)
    return cache[key]


def generate(prog, contracts, P, tier, results, funcs_report):
    W = Walker(prog)
    out = []
    if 'cmd.init' not in prog.funcs:
        results.append({'name': 'cmd.init#generable', 'verdict': 'out_of_subset', 'reason': 'package initialiser of cmd not found', 'time': 0})
        return out
    try:
        W.walk('cmd.init', [])
    except Unsupported as e:
        results.append({'name': 'cmd.init#generable', 'verdict': 'out_of_subset', 'reason': str(e), 'time': 0})
        return out
    for pr in W.problems:
        results.append({'name': 'cmd.init#generable', 'verdict': 'out_of_subset', 'reason': pr, 'time': 0})
    # cross-check (vacuity): every *Var/*VarP call that occurs syntactically in an init#k or helper was executed
    syntactic = 0
    for key, fn in prog.funcs.items():
        if key.startswith('cmd.') and '$' not in key:
            for blk in fn['blocks']:
                for ins in blk['instrs']:
                    if ins['op'] == 'Call' and ins.get('static') and VAR_RE.match(ins['static']):
                        if key in W.walked:
                            syntactic += 1
                        else:
                            results.append({'name': 'cmd.init#generable', 'verdict': 'out_of_subset', 'time': 0,
                                            'reason': 'option registration in %s which is not reached from the package initialiser' % key})
    helpers = sum(1 for k in W.walked if not k.startswith('cmd.init'))
    if len(W.reg) < syntactic or not W.reg:
        results.append({'name': 'cmd.init#vacuity.registrations', 'verdict': 'vacuous', 'time': 0,
                        'reason': '%d registrations executed, %d in the source' % (len(W.reg), syntactic)})
    for k in W.walked:
        funcs_report.append({'function': k, 'file': prog.funcs[k].get('pos', ''), 'status': 'executed (straight-line)'})
    cache = {}
    seen = {}
    for r in W.reg:
        owner = W.owner(r['fs'])
        base = 'cmd.init#default[%s/--%s]' % (owner.replace('.PersistentFlags', '').replace('.Flags', ''), r['name'])
        n = seen.get(base, 0)
        seen[base] = n + 1
        name = base if n == 0 else '%s[%d]' % (base, n)
        if r['target'][0] != 'gaddr':
            continue
        tgt = (r['target'][1], r['target'][2])
        final = W.store.get(tgt)
        s = z3.Solver()
        tv = to_term(r['value'], r['kind'], cache)
        fv = to_term(final, r['kind'], cache)
        if tv.sort() != fv.sort():
            s.add(z3.BoolVal(True))
        else:
            s.add(fv != tv)
        text = 'option --%s of %s: documented default %s ; variable %s.%s after all init() = %s (registered at %s)' % (
            r['name'], owner, show(r['value']), tgt[0], tgt[1], show(final), r['pos'])
        meta = {'owner_var': W.objname.get(r['fs'][1]) if r['fs'][0] == 'fs' else None, 'flagset': r['fs'][2] if r['fs'][0] == 'fs' else None,
                'flag': r['name'], 'target_pkg': tgt[0], 'target_var': tgt[1]}
        out.append((name, s.to_smt2(), text, meta))
    # every option of a flag set has a variable of its own: two options of one command bound to the same variable leave
    # the variable the command reads for one of them unbound (it keeps its zero value, not the documented default)
    byfs = {}
    for r in W.reg:
        if r['target'][0] == 'gaddr' and r['fs'][0] == 'fs':
            byfs.setdefault((r['fs'][1], r['fs'][2], r['target'][1], r['target'][2]), []).append(r)
    for (fsid, fsname, tp, tv), rs in sorted(byfs.items(), key=str):
        names_ = sorted({r['name'] for r in rs})
        if len(names_) > 1:
            owner = W.owner(rs[0]['fs']).replace('.PersistentFlags', '').replace('.Flags', '')
            s_ = z3.Solver()
            s_.add(z3.BoolVal(True))
            out.append(('cmd.init#own_variable[%s/%s]' % (owner, ','.join('--' + n for n in names_)), s_.to_smt2(),
                        'options %s of %s are all bound to the variable %s.%s (registered at %s): at most one of them can be the one the command reads it for' % (
                            ', '.join('--' + n for n in names_), owner, tp, tv, '; '.join(r['pos'] for r in rs)), None))
    # Second clause of the statement ("leaving an option out has the same effect as passing the default value"): a
    # command that asks pflag whether an option was *given* (FlagSet.Changed) can tell the omitted option from the
    # explicitly passed default, so every such question is an obligation of its own, named after command and option.
    # It cannot be discharged by a solver: it fails wherever the question is asked.
    rev = {}
    for nm_, fk_ in prog.aliases.items():
        rev.setdefault(fk_, nm_)
    seen_c = {}
    for key in sorted(prog.funcs):
        fn = prog.funcs[key]
        if not key.startswith('cmd.'):
            continue
        for blk in fn['blocks']:
            for ins in blk['instrs']:
                if ins['op'] in ('Call', 'Defer', 'Go') and ins.get('static') in ('(*github.com/spf13/pflag.FlagSet).Changed', '(*github.com/spf13/pflag.FlagSet).NFlag', '(*github.com/spf13/pflag.FlagSet).Visit'):
                    a_ = ins['args'][1] if len(ins['args']) > 1 else None
                    flag_ = a_['v'] if a_ is not None and a_['k'] == 'const' else ('any option: ' + ins['static'].rsplit('.', 1)[-1])
                    base = '%s#omitted_equals_explicit_default[--%s]' % (rev.get(key, key), flag_)
                    n = seen_c.get(base, 0)
                    seen_c[base] = n + 1
                    if n:
                        continue
                    s = z3.Solver()
                    s.add(z3.BoolVal(True))
                    text = ('%s asks whether option --%s was given on the command line (FlagSet.Changed at %s): passing the documented '
                            'default explicitly and leaving the option out are then different runs' % (rev.get(key, key), flag_, ins.get('pos', '')))
                    out.append((base, s.to_smt2(), text, {'changed_flag': flag_, 'function': rev.get(key, key)}))
    P['_c19_registrations'] = len(W.reg)
    return out


def show(v):
    if v is None:
        return '?'
    if v[0] == 'const':
        return repr(v[2])
    return '<%s>' % (v[0],)


def replay(prog, r, payload, repo, verif):
    """confirm on the real code: after package initialisation, the flag's DefValue (what --help shows)
    differs from the value of the variable the command reads"""
    import json, os, subprocess
    meta = r.get('meta') or {}
    if not meta.get('owner_var') or meta.get('target_pkg') != 'cmd':
        return False
    src = ('package cmd\n\nimport (\n\t"fmt"\n\t"testing"\n)\n\nfunc TestGovcReplay(t *testing.T) {\n'
           '\tf := %s.%s().Lookup(%s)\n\tif f == nil {\n\t\tt.Fatal("no such flag")\n\t}\n'
           '\tfmt.Printf("GOVC-DEF %%q GOVC-VAL %%q\\n", f.DefValue, fmt.Sprint(%s))\n}\n') % (
        meta['owner_var'], meta['flagset'], json.dumps(meta['flag']), meta['target_var'])
    rdir = os.path.join(verif, 'replays', payload['property'])
    os.makedirs(rdir, exist_ok=True)
    base = re.sub(r'[^A-Za-z0-9_]', '_', r['name'])[:100]
    testpath = os.path.join(rdir, base + '_test.go')
    open(testpath, 'w').write(src)
    ov = os.path.join(rdir, base + '_overlay.json')
    json.dump({'Replace': {os.path.join(repo, 'cmd', 'zz_govc_replay_test.go'): testpath}}, open(ov, 'w'))
    env = dict(os.environ, GOFLAGS='-mod=mod', GOPROXY='off', GOSUMDB='off', GOTOOLCHAIN='local')
    cmd = ['go', 'test', '-overlay', ov, '-v', '-vet=off', '-count=1', '-timeout', '120s', '-run', '^TestGovcReplay$', './cmd']
    p = subprocess.run(cmd, cwd=repo, capture_output=True, text=True, env=env)
    out = p.stdout + p.stderr
    payload['replay_test'] = testpath
    payload['replay_cmd'] = 'cd %s && %s' % (repo, ' '.join(cmd))
    payload['replay_output'] = out[-2000:]
    m = re.search(r'GOVC-DEF ("(?:[^"\\]|\\.)*") GOVC-VAL ("(?:[^"\\]|\\.)*")', out)
    ok = bool(m) and m.group(1) != m.group(2)
    payload['replay_confirmed'] = ok
    return ok
