"""Replay of a solver counterexample against the real code (go test -overlay, in-package test).

Supported: functions whose parameters are scalars or pointers to structs with scalar fields and whose
results are scalars. The real function is run on the model's inputs; the counterexample is confirmed
when the real results equal the results the model predicted (the model violates the clause with them)."""
import json
import os
import re
import subprocess
import tempfile
from fractions import Fraction


def golit(world_types, prog, tk, val):
    uk, e = prog.under(tk)
    if e['kind'] != 'basic':
        return None
    n = e['name']
    if 'bool' in n:
        return 'true' if val == 'True' else 'false'
    if 'string' in n:
        return None
    if n.startswith('float'):
        try:
            fr = Fraction(val.replace(' ', ''))
        except Exception:
            return None
        return '%s(%d)/%s(%d)' % (n, fr.numerator, n, fr.denominator)
    try:
        v = int(val)
    except Exception:
        return None
    if n.startswith('uint') and v < 0:
        return None
    return '%s(%d)' % (tk if '.' not in tk else n, v)


def try_replay(prog, r, payload, repo, verif):
    key = r['func']
    fn = prog.funcs.get(key)
    if fn is None or r.get('kind') != 'post':
        return False
    model = r['model']
    if fn['freevars']:
        return False
    pkg = fn.get('pkg')
    pkgname = prog.packages[pkg]['name']
    decl = []
    callargs = []
    for p in fn['params']:
        tk = p['type']
        nm = 'a_' + p['name']
        sp = prog.struct_of_ptr(tk)
        if sp is not None:
            sname, se = sp
            if model.get('p_' + p['name']) in (None, '0'):
                return False
            flds = []
            for f in se['fields']:
                mv = model.get('H0_f_%s_%s[p_%s]' % (sname, f['name'], p['name']))
                if mv is None:
                    continue
                lit = golit(None, prog, f['type'], mv)
                if lit is None:
                    return False
                flds.append('%s: %s' % (f['name'], lit))
            local = sname.split('.')[-1]
            decl.append('%s := &%s{%s}' % (nm, local, ', '.join(flds)))
        else:
            mv = model.get('p_' + p['name'])
            if mv is None:
                mv = '0'
            lit = golit(None, prog, tk, mv)
            if lit is None:
                return False
        if sp is None:
            decl.append('%s := %s' % (nm, lit))
        callargs.append(nm)
    for res in fn['results']:
        if prog.under(res['type'])[1]['kind'] != 'basic' or 'string' in prog.under(res['type'])[1]['name']:
            return False
    # two parameters that alias in the model must alias in the replay
    seen = {}
    for p in fn['params']:
        if prog.struct_of_ptr(p['type']) is not None:
            ref = (p['type'], model.get('p_' + p['name']))
            if ref in seen:
                decl.append('a_%s = %s' % (p['name'], seen[ref]))
            else:
                seen[ref] = 'a_' + p['name']
    if fn['has_recv']:
        call = '%s.%s(%s)' % (callargs[0], fn['name'], ', '.join(callargs[1:]))
    else:
        call = '%s(%s)' % (fn['name'], ', '.join(callargs))
    nres = len(fn['results'])
    lhs = ', '.join('r%d' % i for i in range(nres))
    fmtargs = ', '.join('r%d' % i for i in range(nres))
    src = 'package %s\n\nimport (\n\t"fmt"\n\t"testing"\n)\n\nfunc TestGovcReplay(t *testing.T) {\n\t%s\n\t%s := %s\n\tfmt.Println("GOVC-RESULT", %s)\n}\n' % (
        pkgname, '\n\t'.join(decl), lhs, call, fmtargs)
    rdir = os.path.join(verif, 'replays', payload['property'])
    os.makedirs(rdir, exist_ok=True)
    base = re.sub(r'[^A-Za-z0-9_]', '_', r['name'])[:100]
    testpath = os.path.join(rdir, base + '_test.go')
    with open(testpath, 'w') as f:
        f.write(src)
    inject = os.path.join(repo, pkg, 'zz_govc_replay_test.go')
    ov = os.path.join(rdir, base + '_overlay.json')
    with open(ov, 'w') as f:
        json.dump({'Replace': {inject: testpath}}, f)
    env = dict(os.environ, GOFLAGS='-mod=mod', GOPROXY='off', GOSUMDB='off', GOTOOLCHAIN='local')
    p = subprocess.run(['go', 'test', '-overlay', ov, '-v', '-vet=off', '-count=1', '-timeout', '60s', '-run', '^TestGovcReplay$', './' + pkg],
                       cwd=repo, capture_output=True, text=True, env=env)
    out = p.stdout + p.stderr
    payload['replay_test'] = testpath
    payload['replay_cmd'] = 'cd %s && go test -overlay %s -v -vet=off -count=1 -timeout 60s -run ^TestGovcReplay$ ./%s' % (repo, ov, pkg)
    payload['replay_output'] = out[-3000:]
    m = re.search(r'GOVC-RESULT (.*)', out)
    if not m:
        payload['replay_confirmed'] = False
        return False
    got = m.group(1).split()
    want = []
    for i in range(nres):
        mv = model.get('govc_result_%d' % i)
        want.append(mv)
    ok = True
    for g, wv, res in zip(got, want, fn['results']):
        if wv is None:
            ok = False
            break
        if 'bool' in prog.under(res['type'])[1]['name']:
            ok = ok and (g == ('true' if wv == 'True' else 'false'))
        else:
            try:
                ok = ok and (Fraction(g) == Fraction(wv.replace(' ', '')))
            except Exception:
                ok = False
    payload['replay_real_results'] = got
    payload['replay_model_results'] = want
    payload['replay_confirmed'] = ok
    return ok
