"""Trusted contracts of functions outside /repo (DESIGN.md section 6). Each entry: key -> handler(X, ins, argv) -> [results]
The list of keys used in a run is reported in evidence as trusted_base."""
import z3
from .world import OutOfSubset, LValue, FuncVal

I = z3.IntSort()
EXT = {}
USED = set()


def ext(*keys):
    def deco(f):
        for k in keys:
            def wrapped(X, ins, argv, _f=f, _k=k):
                USED.add(_k)
                return _f(X, ins, argv)
            EXT[k] = wrapped
        return f
    return deco


def new_error(X):
    w = X.w
    r = X.alloc_id('iface')
    return w.Iface.mk_iface(w.tag('*errors.errorString'), r)


@ext('errors.New', 'fmt.Errorf')
def _errors_new(X, ins, argv):
    return [new_error(X)]


@ext('fmt.Sprintf', 'fmt.Sprint')
def _sprintf(X, ins, argv):
    return [X.w.fresh('sprintf', X.w.Str)]


@ext('fmt.Fprintf', 'fmt.Printf', 'fmt.Println', 'fmt.Fprintln', 'fmt.Print', 'fmt.Fprint')
def _fprintf(X, ins, argv):
    return [X.w.fresh('n', I), X.w.nil_iface()]


@ext('log.Print', 'log.Println', 'log.Printf', '(*log.Logger).Print', '(*log.Logger).Printf', '(*log.Logger).Println')
def _log(X, ins, argv):
    return []


@ext('os.Exit', 'log.Fatal', 'log.Fatalf', 'log.Fatalln', '(*log.Logger).Fatal', '(*log.Logger).Fatalf')
def _exit(X, ins, argv):
    X.oblige('noexit', z3.BoolVal(False), ins.get('pos', ''), text='process exit reachable')
    X.hyp(z3.BoolVal(False))
    X.dead = True
    return []


@ext('math.Max')
def _max(X, ins, argv):
    return [z3.If(argv[0] >= argv[1], argv[0], argv[1])]


@ext('math.Min')
def _min(X, ins, argv):
    return [z3.If(argv[0] <= argv[1], argv[0], argv[1])]


@ext('math.Abs')
def _abs(X, ins, argv):
    return [z3.If(argv[0] >= 0, argv[0], -argv[0])]


@ext('math.Sqrt')
def _sqrt(X, ins, argv):
    r = X.w.fresh('sqrt', z3.RealSort())
    X.hyp(z3.Implies(argv[0] >= 0, z3.And(r >= 0, r * r == argv[0])))
    return [r]


@ext('math.Floor', 'math.Ceil', 'math.Round', 'math.Pow', 'math.Pow10', 'math.Log', 'math.Exp')
def _mathuf(X, ins, argv):
    name = ins['static'].replace('.', '_')
    sorts = [a.sort() for a in argv]
    return [X.w.uf(name, *(sorts + [z3.RealSort()]))(*argv)]


@ext('math/rand.Intn')
def _intn(X, ins, argv):
    n = argv[0]
    X.oblige('pre', n > 0, ins.get('pos', ''), label='rand.Intn.positive', text='rand.Intn panics if n <= 0')
    r = X.w.fresh('intn', I)
    X.hyp(z3.And(r >= 0, r < n))
    return [r]


@ext('math/rand.Float64')
def _f64(X, ins, argv):
    r = X.w.fresh('rf', z3.RealSort())
    X.hyp(z3.And(r >= 0, r < 1))
    return [r]


@ext('strconv.Itoa')
def _itoa(X, ins, argv):
    return [X.w.uf('strconv_Itoa', I, X.w.Str)(argv[0])]


@ext('strconv.FormatFloat')
def _fmtfloat(X, ins, argv):
    w = X.w
    return [w.uf('strconv_FormatFloat', z3.RealSort(), I, I, I, w.Str)(*argv)]


@ext('strconv.ParseFloat')
def _parsefloat(X, ins, argv):
    w = X.w
    ok = w.uf('strconv_ParseFloat_ok', w.Str, z3.BoolSort())(argv[0])
    v = w.uf('strconv_ParseFloat_val', w.Str, z3.RealSort())(argv[0])
    e = new_error(X)
    return [z3.If(ok, v, z3.RealVal(0)), z3.If(ok, w.nil_iface(), e)]


@ext('strconv.Atoi', 'strconv.ParseInt')
def _atoi(X, ins, argv):
    w = X.w
    ok = w.uf('strconv_Atoi_ok', w.Str, z3.BoolSort())(argv[0])
    v = w.uf('strconv_Atoi_val', w.Str, I)(argv[0])
    e = new_error(X)
    return [z3.If(ok, v, z3.IntVal(0)), z3.If(ok, w.nil_iface(), e)]


@ext('iface:error.Error')
def _error_error(X, ins, argv):
    return [X.w.uf('error_text', X.w.Iface, X.w.Str)(argv[0])]


# sync: locks are ghost no-ops in the sequential semantics (C11 reasons about them separately)
@ext('(*sync.RWMutex).RLock', '(*sync.RWMutex).RUnlock', '(*sync.RWMutex).Lock', '(*sync.RWMutex).Unlock',
     '(*sync.Mutex).Lock', '(*sync.Mutex).Unlock')
def _lock(X, ins, argv):
    from .chans import lock_event
    lock_event(X, ins, argv)
    return []


@ext('runtime.NumCPU')
def _numcpu(X, ins, argv):
    r = X.w.fresh('ncpu', I)
    X.hyp(r >= 1)
    return [r]


@ext('strings.ToUpper', 'strings.ToLower', 'strings.TrimSpace')
def _str1(X, ins, argv):
    w = X.w
    return [w.uf(ins['static'].replace('.', '_'), w.Str, w.Str)(argv[0])]
