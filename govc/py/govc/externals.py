"""Trusted contracts of functions outside /repo (DESIGN.md section 6). Each entry: key -> handler(X, ins, argv) -> [results]
The list of keys used in a run is reported in evidence as trusted_base."""
import z3
from .world import OutOfSubset, LValue, FuncVal

I = z3.IntSort()
EXT = {}
USED = set()


def ext(*keys):
    def deco(f):
        for k in keys:
            def wrapped(X, ins, argv, _f=f, _k=k):
                USED.add(_k)
                return _f(X, ins, argv)
            EXT[k] = wrapped
        return f
    return deco


def new_error(X):
    w = X.w
    r = X.alloc_id('iface')
    return w.Iface.mk_iface(w.tag('*errors.errorString'), r)


@ext('errors.New', 'fmt.Errorf')
def _errors_new(X, ins, argv):
    return [new_error(X)]


@ext('(*bufio.Reader).ReadLine')
def _bufio_readline(X, ins, argv):
    """trusted (bufio documentation: "The returned buffer is only valid until the next call to ReadLine"): the line is a
    slice of the reader's internal buffer, not storage made for the caller.  The buffer is allocated with the reader; when
    the function under verification receives the reader as a parameter it is therefore older than the call being verified
    (never `fresh_arr`).  When the reader is not a parameter nothing is said about the age of the buffer."""
    w = X.w
    a = w.fresh('rlbuf', I)
    n = w.fresh('rllen', I)
    X.hyp(n >= 0)
    X.hyp(a >= 0)
    X.hyp(a <= X.heap.get(('alloc', 'arr')))
    fn_ = X.w.prog.funcs.get(X.V.fnkey) or {}
    if X.top and any(p_.get('type') == '*bufio.Reader' for p_ in fn_.get('params', [])):
        X.hyp(a <= X.top_entry_heap().get(('alloc', 'arr')))
    line = w.Slice.mk_slice(a, 0, n, w.fresh('rlcap', I))
    isprefix = w.fresh('rlprefix', z3.BoolSort())
    err = w.fresh('rlerr', w.sort('error'))
    from .calls import well_typed
    for f in well_typed(X.V, X.heap, err, 'error'):
        X.hyp(f)
    return [line, isprefix, err]


@ext('fmt.Sprintf', 'fmt.Sprint')
def _sprintf(X, ins, argv):
    return [X.w.fresh('sprintf', X.w.Str)]


@ext('fmt.Fprintf', 'fmt.Printf', 'fmt.Println', 'fmt.Fprintln', 'fmt.Print', 'fmt.Fprint')
def _fprintf(X, ins, argv):
    return [X.w.fresh('n', I), X.w.nil_iface()]


@ext('log.Print', 'log.Println', 'log.Printf', '(*log.Logger).Print', '(*log.Logger).Printf', '(*log.Logger).Println')
def _log(X, ins, argv):
    return []


@ext('os.Exit', 'log.Fatal', 'log.Fatalf', 'log.Fatalln', '(*log.Logger).Fatal', '(*log.Logger).Fatalf')
def _exit(X, ins, argv):
    X.oblige('noexit', z3.BoolVal(False), ins.get('pos', ''), text='process exit reachable')
    X.hyp(z3.BoolVal(False))
    X.dead = True
    return []


@ext('math.Max')
def _max(X, ins, argv):
    return [z3.If(argv[0] >= argv[1], argv[0], argv[1])]


@ext('math.Min')
def _min(X, ins, argv):
    return [z3.If(argv[0] <= argv[1], argv[0], argv[1])]


@ext('math.Abs')
def _abs(X, ins, argv):
    return [z3.If(argv[0] >= 0, argv[0], -argv[0])]


@ext('math.Sqrt')
def _sqrt(X, ins, argv):
    r = X.w.fresh('sqrt', z3.RealSort())
    X.hyp(z3.Implies(argv[0] >= 0, z3.And(r >= 0, r * r == argv[0])))
    return [r]


@ext('math.Floor', 'math.Ceil', 'math.Round', 'math.Pow', 'math.Pow10', 'math.Log', 'math.Exp')
def _mathuf(X, ins, argv):
    name = ins['static'].replace('.', '_')
    sorts = [a.sort() for a in argv]
    return [X.w.uf(name, *(sorts + [z3.RealSort()]))(*argv)]


@ext('math/rand.Intn')
def _intn(X, ins, argv):
    n = argv[0]
    X.oblige('pre', n > 0, ins.get('pos', ''), label='rand.Intn.positive', text='rand.Intn panics if n <= 0')
    r = X.w.fresh('intn', I)
    X.hyp(z3.And(r >= 0, r < n))
    # ghost log of the draws: count, last result, last range (used by the expectation contracts of C20)
    for nm, v in (('rand_count', X.heap.get(('ghost', 'rand_count', I)) + 1), ('rand_last', r), ('rand_range', n)):
        X.heap.set(('ghost', nm, I), v)
    return [r]


EXT['mod:math/rand.Intn'] = lambda V: {('ghost', 'rand_count', I), ('ghost', 'rand_last', I), ('ghost', 'rand_range', I)}


@ext('math/rand.Perm')
def _perm(X, ins, argv):
    """trusted: a fresh slice of length n holding a permutation of 0..n-1 (every value in range, pairwise distinct); one
    draw of the ghost log with range n (the n! outcomes are A-RAND)"""
    w = X.w
    S = w.Slice
    n = argv[0]
    X.oblige('pre', n >= 0, ins.get('pos', ''), label='rand.Perm.nonneg', text='rand.Perm panics if n < 0')
    a = X.alloc_id('arr')
    key = ('el', 'int')
    E = X.heap.get(key)
    A = w.fresh('perm', z3.ArraySort(I, I))
    X.heap.set(key, z3.Store(E, a, A))
    j = z3.Const('pm_j', I)
    k = z3.Const('pm_k', I)
    ixf = w.uf('ix', I, I, I)
    w.ix_used = True
    X.hyp(z3.ForAll([j], z3.Implies(z3.And(j >= 0, j < n), z3.And(A[ixf(0, j)] >= 0, A[ixf(0, j)] < n)), patterns=[A[ixf(0, j)]]))
    X.hyp(z3.ForAll([j, k], z3.Implies(z3.And(j >= 0, j < k, k < n), A[ixf(0, j)] != A[ixf(0, k)]), patterns=[z3.MultiPattern(A[ixf(0, j)], A[ixf(0, k)])]))
    for nm, v in (('rand_count', X.heap.get(('ghost', 'rand_count', I)) + 1), ('rand_range', n)):
        X.heap.set(('ghost', nm, I), v)
    return [S.mk_slice(a, 0, n, n)]


EXT['mod:math/rand.Perm'] = lambda V: {('ghost', 'rand_count', I), ('ghost', 'rand_range', I), ('alloc', 'arr'), ('el', 'int')}


@ext('math/rand.Float64')
def _f64(X, ins, argv):
    r = X.w.fresh('rf', z3.RealSort())
    X.hyp(z3.And(r >= 0, r < 1))
    return [r]


@ext('strconv.Itoa')
def _itoa(X, ins, argv):
    return [X.w.uf('strconv_Itoa', I, X.w.Str)(argv[0])]


@ext('strconv.FormatFloat')
def _fmtfloat(X, ins, argv):
    w = X.w
    return [w.uf('strconv_FormatFloat', z3.RealSort(), I, I, I, w.Str)(*argv)]


@ext('strconv.ParseFloat')
def _parsefloat(X, ins, argv):
    w = X.w
    ok = w.uf('strconv_ParseFloat_ok', w.Str, z3.BoolSort())(argv[0])
    v = w.uf('strconv_ParseFloat_val', w.Str, z3.RealSort())(argv[0])
    e = new_error(X)
    return [z3.If(ok, v, z3.RealVal(0)), z3.If(ok, w.nil_iface(), e)]


@ext('strconv.Atoi', 'strconv.ParseInt')
def _atoi(X, ins, argv):
    w = X.w
    ok = w.uf('strconv_Atoi_ok', w.Str, z3.BoolSort())(argv[0])
    v = w.uf('strconv_Atoi_val', w.Str, I)(argv[0])
    e = new_error(X)
    return [z3.If(ok, v, z3.IntVal(0)), z3.If(ok, w.nil_iface(), e)]


@ext('iface:error.Error')
def _error_error(X, ins, argv):
    return [X.w.uf('error_text', X.w.Iface, X.w.Str)(argv[0])]


# sync: locks are ghost no-ops in the sequential semantics (C11 reasons about them separately)
@ext('(*sync.RWMutex).RLock', '(*sync.RWMutex).RUnlock', '(*sync.RWMutex).Lock', '(*sync.RWMutex).Unlock',
     '(*sync.Mutex).Lock', '(*sync.Mutex).Unlock')
def _lock(X, ins, argv):
    from .chans import lock_event
    lock_event(X, ins, argv)
    return []


@ext('runtime.NumCPU')
def _numcpu(X, ins, argv):
    r = X.w.fresh('ncpu', I)
    X.hyp(r >= 1)
    return [r]


@ext('strings.ToUpper', 'strings.ToLower', 'strings.TrimSpace')
def _str1(X, ins, argv):
    w = X.w
    return [w.uf(ins['static'].replace('.', '_'), w.Str, w.Str)(argv[0])]


@ext('strings.Compare')
def _str_compare(X, ins, argv):
    # trusted: -1 / 0 / +1 according to the lexicographic order `<` on strings uses (the same uninterpreted str_lt)
    w = X.w
    lt = w.uf('str_lt', w.Str, w.Str, z3.BoolSort())
    a, b = argv[0], argv[1]
    r = w.fresh('strcmp', I)
    X.hyp(z3.And(z3.Or(r == -1, r == 0, r == 1), (r == -1) == lt(a, b), (r == 0) == (a == b), (r == 1) == lt(b, a)))
    return [r]


# ---------------------------------------------------------------------- github.com/fredericlemoine/bitset
# Abstract model (trusted): a BitSet object r has ghost contents bs_bits[r] : Int -> Bool and bs_len[r].
BS = 'github.com/fredericlemoine/bitset.BitSet'
BSP = '(*github.com/fredericlemoine/bitset.BitSet).'
B = z3.BoolSort()


def bs_keys():
    return _bs_keys()


def _bs_keys():
    return ('ghost', 'bs_bits', z3.ArraySort(I, z3.ArraySort(I, B)), BS), ('ghost', 'bs_len', z3.ArraySort(I, I), BS)


def _bs_new(X, bits, length):
    kb, kl = _bs_keys()
    r = X.alloc_id(BS)
    X.heap.set(kb, z3.Store(X.heap.get(kb), r, bits))
    X.heap.set(kl, z3.Store(X.heap.get(kl), r, length))
    return r


@ext('github.com/fredericlemoine/bitset.New')
def _bs_New(X, ins, argv):
    return [_bs_new(X, z3.K(I, z3.BoolVal(False)), argv[0])]


@ext(BSP + 'Clone')
def _bs_Clone(X, ins, argv):
    kb, kl = _bs_keys()
    X.nonnil(argv[0], ins.get('pos', ''), 'method call on nil *BitSet')
    return [_bs_new(X, X.heap.get(kb)[argv[0]], X.heap.get(kl)[argv[0]])]


@ext(BSP + 'Set')
def _bs_Set(X, ins, argv):
    kb, kl = _bs_keys()
    b, i = argv[0], argv[1]
    X.nonnil(b, ins.get('pos', ''), 'method call on nil *BitSet')
    bits = X.heap.get(kb)
    ln = X.heap.get(kl)
    X.heap.set(kb, z3.Store(bits, b, z3.Store(bits[b], i, z3.BoolVal(True))))
    X.heap.set(kl, z3.Store(ln, b, z3.If(i >= ln[b], i + 1, ln[b])))
    return [b]


@ext(BSP + 'Test')
def _bs_Test(X, ins, argv):
    kb, kl = _bs_keys()
    b, i = argv[0], argv[1]
    X.nonnil(b, ins.get('pos', ''), 'method call on nil *BitSet')
    return [z3.And(i < X.heap.get(kl)[b], X.heap.get(kb)[b][i])]


@ext(BSP + 'Len')
def _bs_Len(X, ins, argv):
    kb, kl = _bs_keys()
    X.nonnil(argv[0], ins.get('pos', ''), 'method call on nil *BitSet')
    return [X.heap.get(kl)[argv[0]]]


@ext(BSP + 'Count')
def _bs_Count(X, ins, argv):
    kb, kl = _bs_keys()
    X.nonnil(argv[0], ins.get('pos', ''), 'method call on nil *BitSet')
    f = X.w.uf('bs_card', z3.ArraySort(I, B), I, I)
    r = f(X.heap.get(kb)[argv[0]], X.heap.get(kl)[argv[0]])
    X.hyp(z3.And(r >= 0, r <= X.heap.get(kl)[argv[0]]))
    return [r]


@ext(BSP + 'None')
def _bs_None(X, ins, argv):
    kb, kl = _bs_keys()
    X.nonnil(argv[0], ins.get('pos', ''), 'method call on nil *BitSet')
    f = X.w.uf('bs_card', z3.ArraySort(I, B), I, I)
    return [f(X.heap.get(kb)[argv[0]], X.heap.get(kl)[argv[0]]) == 0]


@ext(BSP + 'ClearAll')
def _bs_ClearAll(X, ins, argv):
    kb, kl = _bs_keys()
    b = argv[0]
    X.nonnil(b, ins.get('pos', ''), 'method call on nil *BitSet')
    X.heap.set(kb, z3.Store(X.heap.get(kb), b, z3.K(I, z3.BoolVal(False))))
    return [b]


@ext(BSP + 'EqualOrComplement')
def _bs_Eqc(X, ins, argv):
    kb, kl = _bs_keys()
    b, c = argv[0], argv[1]
    X.nonnil(b, ins.get('pos', ''), 'method call on nil *BitSet')
    bits = X.heap.get(kb)
    ln = X.heap.get(kl)
    f = X.w.uf('bs_eqc', z3.ArraySort(I, B), I, z3.ArraySort(I, B), I, B)
    # nil argument: the library returns false
    return [z3.And(c != 0, f(bits[b], ln[b], bits[c], ln[c]))]


@ext(BSP + 'DumpAsBits', BSP + 'String')
def _bs_Dump(X, ins, argv):
    X.nonnil(argv[0], ins.get('pos', ''), 'method call on nil *BitSet')
    return [X.w.fresh('bsdump', X.w.Str)]


EXT['ghostspace:' + BS] = _bs_keys
for _k in (BSP + 'Set', BSP + 'ClearAll'):
    EXT['mod:' + _k] = lambda V: set(_bs_keys())
for _k in ('github.com/fredericlemoine/bitset.New', BSP + 'Clone'):
    EXT['mod:' + _k] = lambda V: set(_bs_keys()) | {('alloc', BS)}


@ext('(*sync.WaitGroup).Add', '(*sync.WaitGroup).Done', '(*sync.WaitGroup).Wait')
def _wg(X, ins, argv):
    from .chans import wg_event
    wg_event(X, ins, argv)
    return []


def _ghost_ints(*names):
    return lambda V: {('ghost', n, I) for n in names}


# each method advances exactly one ghost counter (chans.wg_event)
for _k, _g in (('Add', 'wg_add'), ('Done', 'wg_done'), ('Wait', 'wg_wait')):
    EXT['mod:(*sync.WaitGroup).' + _k] = _ghost_ints(_g)
for _k in ('RLock', 'RUnlock', 'Lock', 'Unlock'):
    EXT['mod:(*sync.RWMutex).' + _k] = _ghost_ints('lock_RLock', 'lock_RUnlock', 'lock_Lock', 'lock_Unlock')
    EXT['mod:(*sync.Mutex).' + _k] = _ghost_ints('lock_RLock', 'lock_RUnlock', 'lock_Lock', 'lock_Unlock')


@ext('sync/atomic.AddInt32', 'sync/atomic.AddInt64')
def _atomic_add(X, ins, argv):
    from .symex import load_lvalue, store_lvalue
    lv = argv[0]
    if not isinstance(lv, LValue):
        uk, e = X.w.prog.under(ins['args'][0]['type'])
        lv = LValue('cell', (e['elem'], lv), e['elem'])
    v = load_lvalue(X.V, X.heap, lv) + argv[1]
    store_lvalue(X.V, X.heap, lv, v)
    X.heap.set(('ghost', 'atomic_ops', I), X.heap.get(('ghost', 'atomic_ops', I)) + 1)
    return [v]


# ---------------------------------------------------------------------- sort
def _slice_behind_iface(X, ins, argidx=0):
    """the slice value that was boxed into the interface argument (sort.Slice(x any, ...))"""
    from .modset import find_def
    a = ins['args'][argidx]
    if a['k'] != 'reg':
        return None, None
    d = find_def(X.fn, a['name'])
    if d is None or d['op'] != 'MakeInterface':
        return None, None
    return X.term(d['x']), d['x']['type']


def _permute_in_place(X, s, ty):
    """trusted: the elements of s[0:len) are permuted (every new element is an old element and vice versa)"""
    w = X.w
    S = w.Slice
    el = w.prog.under(ty)[1]['elem']
    key = ('el', el)
    E = X.heap.get(key)
    A = w.fresh('sorted', z3.ArraySort(I, w.sort(el)))
    old = E[S.arr(s)]
    j = z3.Const('so_j', I)
    k = z3.Const('so_k', I)
    ixf = w.uf('ix', I, I, I)
    w.ix_used = True
    perm = w.fresh('perm', z3.ArraySort(I, I))
    inv = w.fresh('perminv', z3.ArraySort(I, I))
    n = S.len(s)
    off = S.off(s)
    X.hyp(z3.ForAll([j], z3.Implies(z3.And(j >= 0, j < n), z3.And(perm[j] >= 0, perm[j] < n, inv[perm[j]] == j,
                                                                 A[ixf(off, j)] == old[ixf(off, perm[j])])), patterns=[A[ixf(off, j)]]))
    X.hyp(z3.ForAll([k], z3.Implies(z3.And(k >= 0, k < n), z3.And(inv[k] >= 0, inv[k] < n, perm[inv[k]] == k)), patterns=[inv[k]]))
    # positions outside the slice window keep their value
    p = z3.Const('so_p', I)
    X.hyp(z3.ForAll([p], z3.Implies(z3.Or(p < off, p >= off + n), A[p] == old[p]), patterns=[A[p]]))
    nh = X.V.fresh_heap_const(key, X.tag + 'sort')
    X.hyp(nh == z3.Store(E, S.arr(s), A))
    X.heap.set(key, nh)


@ext('sort.Slice', 'sort.SliceStable')
def _sort_slice(X, ins, argv):
    s, ty = _slice_behind_iface(X, ins)
    if s is None:
        raise OutOfSubset('sort.Slice on a value that is not a freshly boxed slice')
    _permute_in_place(X, s, ty)
    return []


@ext('sort.Strings', 'sort.Ints', 'sort.Float64s')
def _sort_basic(X, ins, argv):
    _permute_in_place(X, argv[0], ins['args'][0]['type'])
    return []


def _sort_mod(V):
    return set()


EXT['modfn:sort.Slice'] = True


# ---------------------------------------------------------------------- bufio.Reader as an abstract rune stream (C02)
# ghost per reader r: rd_remaining[r] = number of runes ReadRune will still deliver; rd_canunread[r] = last call was a
# successful ReadRune. A failing ReadRune (EOF or any error) consumes nothing; UnreadRune gives back at most one rune.
RD = 'bufio.Reader'


def rd_keys():
    return ('ghost', 'rd_remaining', z3.ArraySort(I, I), RD), ('ghost', 'rd_canunread', z3.ArraySort(I, z3.BoolSort()), RD)


@ext('(*bufio.Reader).ReadRune')
def _readrune(X, ins, argv):
    w = X.w
    r = argv[0]
    X.nonnil(r, ins.get('pos', ''), 'method call on nil *bufio.Reader')
    kr, kc = rd_keys()
    rem = X.heap.get(kr)
    cu = X.heap.get(kc)
    # remaining(r) counts the runes that will still be delivered: the call succeeds exactly while it is positive
    X.hyp(rem[r] >= 0)
    ok = rem[r] > 0
    ch = w.fresh('rune', I)
    X.hyp(z3.And(ch >= 0, ch <= 0x10FFFF))
    size = w.fresh('runesize', I)
    X.hyp(z3.And(size >= 1, size <= 4))
    e = new_error(X)
    X.heap.set(kr, z3.Store(rem, r, z3.If(ok, rem[r] - 1, rem[r])))
    X.heap.set(kc, z3.Store(cu, r, ok))
    return [z3.If(ok, ch, z3.IntVal(0)), z3.If(ok, size, z3.IntVal(0)), z3.If(ok, w.nil_iface(), e)]


@ext('(*bufio.Reader).UnreadRune')
def _unreadrune(X, ins, argv):
    w = X.w
    r = argv[0]
    X.nonnil(r, ins.get('pos', ''), 'method call on nil *bufio.Reader')
    kr, kc = rd_keys()
    rem = X.heap.get(kr)
    cu = X.heap.get(kc)
    can = cu[r]
    e = new_error(X)
    X.heap.set(kr, z3.Store(rem, r, z3.If(can, rem[r] + 1, rem[r])))
    X.heap.set(kc, z3.Store(cu, r, z3.BoolVal(False)))
    return [z3.If(can, w.nil_iface(), e)]


EXT['mod:(*bufio.Reader).ReadRune'] = lambda V: set(rd_keys()) | {('alloc', 'iface')}
EXT['mod:(*bufio.Reader).UnreadRune'] = lambda V: set(rd_keys()) | {('alloc', 'iface')}
EXT['ghostspace:' + RD] = rd_keys


@ext('github.com/evolbioinfo/goalign/align.NewAlign', 'github.com/evolbioinfo/goalign/align.NewSeqBag')
def _newalign(X, ins, argv):
    w = X.w
    tk = ins['type']
    v = w.fresh('align', w.sort(tk))
    from .symex import well_typed
    for f in well_typed(X.V, X.heap, v, tk):
        X.hyp(f)
    # constructors of goalign return a non-nil object (trusted)
    if w.prog.kind(tk) == 'iface':
        X.hyp(w.Iface.tag(v) > 0)
    else:
        X.hyp(v != 0)
    return [v]


@ext('github.com/fredericlemoine/gostats.Exp')
def _gostats_exp(X, ins, argv):
    r = X.w.fresh('expdraw', z3.RealSort())
    X.hyp(r >= 0)          # a draw from an exponential distribution is non-negative (trusted)
    return [r]


# ---------------------------------------------------------------------- bytes.Buffer (abstract content, trusted)
# A *bytes.Buffer b has a ghost content buf_content[b] : Str.  Writes extend it by an uninterpreted append (the
# result is a function of the previous content and of what was written, nothing else); String() returns it.
BUF = 'bytes.Buffer'


def buf_key(w):
    return ('ghost', 'buf_content', z3.ArraySort(I, w.Str), BUF)


def _buf_write(X, ins, argv, kind):
    w = X.w
    b = argv[0]
    X.nonnil(b, ins.get('pos', ''), 'method call on nil *bytes.Buffer')
    k = buf_key(w)
    c = X.heap.get(k)
    a = argv[1]
    if kind == 'bytes':
        piece = w.fresh('bytes_written', w.Str)
    else:
        piece = w.uf('buf_piece_' + kind, a.sort(), w.Str)(a) if kind != 'str' else a
    X.heap.set(k, z3.Store(c, b, w.uf('buf_append', w.Str, w.Str, w.Str)(c[b], piece)))
    n = w.fresh('nwritten', I)
    X.hyp(n >= 0)
    return n


@ext('(*bytes.Buffer).WriteString')
def _buf_ws(X, ins, argv):
    return [_buf_write(X, ins, argv, 'str'), X.w.nil_iface()]


@ext('(*bytes.Buffer).WriteRune')
def _buf_wr(X, ins, argv):
    return [_buf_write(X, ins, argv, 'rune'), X.w.nil_iface()]


@ext('(*bytes.Buffer).WriteByte')
def _buf_wb(X, ins, argv):
    _buf_write(X, ins, argv, 'byte')
    return [X.w.nil_iface()]


@ext('(*bytes.Buffer).String')
def _buf_string(X, ins, argv):
    w = X.w
    X.hyp(argv[0] != 0) if False else None
    return [X.heap.get(buf_key(w))[argv[0]]]


@ext('(*bytes.Buffer).Reset')
def _buf_reset(X, ins, argv):
    w = X.w
    k = buf_key(w)
    X.heap.set(k, z3.Store(X.heap.get(k), argv[0], w.strlit('')))
    return []


for _m in ('WriteString', 'WriteRune', 'WriteByte', 'Reset'):
    EXT['mod:(*bytes.Buffer).' + _m] = lambda V: {buf_key(V.world)}
