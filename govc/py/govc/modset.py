"""Syntactic modification sets (heap keys possibly written) for loop havoc."""
import z3
from .world import OutOfSubset

_memo = {}
ALLOC_SINK = None      # when a set: keys touched only through fresh allocations are collected here instead of the result


def struct_keys(w, sname):
    if w.sort(sname) == w.Opaque:
        return set()
    return {('f', sname, f['name']) for f in w.struct_fields(sname)}


def find_def(fn, name):
    d = fn.get('_defs')
    if d is None:
        d = {}
        for blk in fn['blocks']:
            for x in blk['instrs']:
                if x.get('name') and x['op'] != 'DebugRef':
                    d[x['name']] = x
        fn['_defs'] = d
    return d.get(name)


def addr_keys(V, fn, op):
    """heap keys a store through pointer operand `op` may write"""
    w = V.world
    prog = w.prog
    if op['k'] == 'global':
        return {('g', op['pkg'], op['name'])}
    tk = op['type']
    uk, e = prog.under(tk)
    el = e['elem']
    if op['k'] == 'reg':
        d = find_def(fn, op['name'])
        if d is not None:
            if d['op'] == 'FieldAddr':
                # walk to the root of nested by-value fields
                x = d
                while True:
                    bx = x['x']
                    bt = prog.under(bx['type'])[1]['elem']
                    fld = w.struct_fields(bt)[x['field']]
                    if bx['k'] == 'reg':
                        dd = find_def(fn, bx['name'])
                        if dd is not None and dd['op'] in ('FieldAddr', 'IndexAddr'):
                            if dd['op'] == 'IndexAddr':
                                return addr_keys(V, fn, {'k': 'reg', 'name': bx['name'], 'type': bx['type']})
                            x = dd
                            continue
                    return {('f', bt, fld['name'])}
            if d['op'] == 'IndexAddr':
                xt = prog.under(d['x']['type'])[1]
                if xt['kind'] == 'slice':
                    return {('el', xt['elem'])}
                if xt['kind'] == 'ptr':
                    at = prog.under(xt['elem'])[1]
                    return {('el', at['elem'])}
            if d['op'] == 'Alloc':
                if prog.kind(el) == 'struct':
                    return struct_keys(w, el)
                return {('cell', el)}
    if prog.kind(el) == 'struct':
        return struct_keys(w, el)
    return {('cell', el)}


def instr_modset(V, fn, x, stack):
    w = V.world
    prog = w.prog
    op = x['op']
    out = set()
    if op == 'Store':
        out |= addr_keys(V, fn, x['addr'])
    elif op == 'MapUpdate':
        mt = x['map']['type']
        out |= {('mdom', mt), ('mval', mt), ('msize', mt)}
    elif op == 'Alloc':
        el = prog.types[x['type']]['elem']
        uk, e = prog.under(el)
        fresh = out if ALLOC_SINK is None else ALLOC_SINK
        if e['kind'] == 'struct':
            fresh |= struct_keys(w, el)
            out |= {('alloc', el)}
        elif e['kind'] == 'array':
            fresh |= {('el', e['elem'])}
            out |= {('alloc', 'arr')}
        else:
            fresh |= {('cell', el)}
            out |= {('alloc', 'cell:' + el)}
    elif op == 'MakeSlice':
        fresh = out if ALLOC_SINK is None else ALLOC_SINK
        fresh |= {('el', prog.under(x['type'])[1]['elem'])}
        out |= {('alloc', 'arr')}
    elif op == 'MakeMap':
        mt = x['type']
        fresh = out if ALLOC_SINK is None else ALLOC_SINK
        fresh |= {('mdom', mt), ('msize', mt)}
        out |= {('alloc', 'map')}
    elif op == 'MakeChan':
        out |= {('alloc', 'chan')}
    elif op == 'Convert':
        if prog.kind(x['type']) == 'slice':
            out |= {('alloc', 'arr'), ('el', prog.under(x['type'])[1]['elem'])}
    elif op in ('Call', 'Defer'):
        out |= call_modset(V, fn, x, stack)
    elif op in ('Send', 'MakeChan'):
        from .chans import chan_modset
        out |= chan_modset(V, x)
        if op == 'MakeChan':
            out |= {('alloc', 'chan')}
    elif op == 'UnOp' and x['tok'] == '<-':
        from .chans import chan_modset
        out |= chan_modset(V, x)
    elif op == 'Next':
        out |= set(getattr(V, 'range_keys', {}).values())
    elif op == 'Go':
        from .chans import chan_modset, go_effects
        mod, confined = go_effects(V, fn, x, stack)
        out |= chan_modset(V, x) | mod | confined
    return out


def call_modset(V, fn, x, stack):
    w = V.world
    prog = w.prog
    out = set()
    if 'invoke' in x:
        key = 'iface:%s.%s' % (x['iface'], x['invoke'])
        c = V.contracts['funcs'].get(key)
        if c is not None:
            return contract_modset(V, key, c, iface_pkg_of(key))
        m = V.externals.get('mod:' + key)
        if m is not None:
            return set(m(V))
        if key in V.externals:
            return set()
        from .calls import generic_external_ok
        if generic_external_ok(key):
            return {('alloc', 'arr'), ('alloc', 'iface')}
        raise OutOfSubset('modset of interface call ' + key)
    cal = x['callee']
    if cal['k'] == 'builtin':
        n = cal['name']
        if n == 'append':
            return {('alloc', 'arr'), ('el', prog.under(x['type'])[1]['elem'])}
        if n == 'copy':
            return {('el', prog.under(x['args'][0]['type'])[1]['elem'])}
        if n == 'delete':
            mt = x['args'][0]['type']
            return {('mdom', mt), ('msize', mt)}
        if n == 'close':
            from .chans import chan_modset
            return chan_modset(V, x)
        return set()
    key = x.get('static')
    if key is None:
        if cal['k'] == 'reg':
            d = find_def(fn, cal['name'])
            if d is not None and d['op'] == 'MakeClosure':
                key = d['fn']
        if key is None and cal['k'] == 'param':
            out = {('ghost', 'fncalls_' + cal['name'], __import__('z3').IntSort())}
            for i, a in enumerate(x['args']):
                try:
                    out.add(('ghost', 'fnarg%d_%s' % (i, cal['name']), w.sort(a['type'])))
                except OutOfSubset:
                    pass
            return out
        if key is None:
            raise OutOfSubset('modset of dynamic call in ' + fn['key'])
    c = V.contracts['funcs'].get(key)
    if c is not None and 'inline' not in c['flags']:
        f2 = prog.funcs.get(key)
        pkg = f2.get('pkg') if f2 else None
        return contract_modset(V, key, c, pkg)
    m = V.externals.get('mod:' + key)
    if m is not None:
        return set(m(V))
    if key in ('sort.Slice', 'sort.SliceStable'):
        a = x['args'][0]
        d = find_def(fn, a['name']) if a['k'] == 'reg' else None
        if d is not None and d['op'] == 'MakeInterface':
            return {('el', prog.under(d['x']['type'])[1]['elem'])}
        raise OutOfSubset('modset of sort.Slice')
    if key in ('sort.Strings', 'sort.Ints', 'sort.Float64s'):
        return {('el', prog.under(x['args'][0]['type'])[1]['elem'])}
    if key in V.externals:
        return set()
    if key in prog.funcs and prog.funcs[key]['blocks']:
        if key in stack:
            return set()
        return func_modset(V, key, stack + [key])
    from .calls import generic_external_ok
    if generic_external_ok(key):
        return {('alloc', 'arr'), ('alloc', 'iface')}
    raise OutOfSubset('modset: unknown callee ' + key)


def iface_pkg_of(key):
    body = key[len('iface:'):]
    return body.rsplit('.', 1)[0].rsplit('.', 1)[0]


_nested = set()


def contract_modset(V, key, c, pkg):
    from .speceval import resolve_type
    from .calls import alloc_spaces
    w = V.world
    prog = w.prog
    out = set()

    class _X:
        pass
    x = _X()
    x.w = w
    x.V = V
    for (ak, hkeys) in alloc_spaces(x, c['allocates'], pkg):
        out.add(ak)
        if ALLOC_SINK is None:
            out |= set(hkeys)
        else:
            ALLOC_SINK.update(hkeys)
    for (ast, txt) in (c['assigns'] or []):
        out |= assigns_item_keys(V, ast, pkg, key)
    if c['assigns'] is None and key in prog.funcs and prog.funcs[key]['blocks'] and key not in _nested:
        _nested.add(key)
        saved = V.contracts['funcs'].pop(key)
        try:
            out |= func_modset(V, key, [key])
        finally:
            V.contracts['funcs'][key] = saved
            _nested.discard(key)
    return out


def assigns_item_keys(V, ast, pkg, key):
    """key-level over-approximation of one assigns item without evaluating expressions"""
    from .speceval import resolve_type
    w = V.world
    prog = w.prog
    k = ast[0]
    if k == 'field':
        base = ast[1]
        from .calls import dotted_name
        from .spec import SpecError
        tn = dotted_name(base)
        fn_ = prog.funcs.get(key)
        pnames = [p['name'] for p in (fn_['params'] + fn_['freevars'] + fn_['results'])] if fn_ else []
        if tn is not None and tn.split('.')[0] not in pnames:
            try:
                ty0 = resolve_type(w, tn, pkg)
                if prog.kind(ty0) == 'struct':
                    return {('f', ty0, ast[2])}
            except SpecError:
                pass
        ty = static_type(V, base, pkg, key)
        sp = prog.struct_of_ptr(ty) if ty in prog.types else None
        if sp is not None:
            return {('f', sp[0], ast[2])}
        if ty in prog.types and prog.kind(ty) == 'struct':
            return {('f', ty, ast[2])}
        raise OutOfSubset('assigns item type in contract of ' + key)
    if k == 'call':
        name, args = ast[1], ast[2]
        if name == 'elems':
            if args[0][0] == 'str':
                return {('el', resolve_type(w, args[0][1], pkg))}
            ty = static_type(V, args[0], pkg, key)
            return {('el', prog.under(ty)[1]['elem'])}
        if name == 'mapof':
            ty = resolve_type(w, args[0][1], pkg) if args[0][0] == 'str' else static_type(V, args[0], pkg, key)
            return {('mdom', ty), ('mval', ty), ('msize', ty)}
        if name == 'global':
            return {('g', pkg, args[0][1])}
        if name == 'allfields':
            ty = resolve_type(w, args[0][1], pkg)
            return {('f', ty, f['name']) for f in w.struct_fields(ty)}
        if name == 'stream':
            from .externals import rd_keys
            return set(rd_keys())
        if name == 'content':
            from .externals import buf_key
            return {buf_key(w)}
        if name == 'ghost':
            return {kk for kk in V.h0 if kk[0] == 'ghost' and kk[1] == args[0][1]}
        if name == 'cell':
            ty = static_type(V, args[0], pkg, key)
            uk, e = prog.under(ty)
            if e['kind'] == 'ptr':
                ty = e['elem']
            return {('cell', ty)}
    raise OutOfSubset('assigns item %r in contract of %s' % (ast, key))


def static_type(V, ast, pkg, key):
    """static Go type of a simple spec expression (param, field chain, index) for a callee contract"""
    from .speceval import resolve_type
    w = V.world
    prog = w.prog
    k = ast[0]
    if k == 'id':
        fn = prog.funcs.get(key)
        if fn:
            for p in fn['params'] + fn['freevars'] + fn['results']:
                if p['name'] == ast[1]:
                    return p['type']
        try:
            t = resolve_type(w, ast[1], pkg)
            return t
        except Exception:
            pass
        if ast[1] == 'self' and key.startswith('iface:'):
            return key[len('iface:'):].rsplit('.', 1)[0]
        raise OutOfSubset('static type of %s in %s' % (ast[1], key))
    if k == 'field':
        bt = static_type(V, ast[1], pkg, key)
        sp = prog.struct_of_ptr(bt)
        sname = sp[0] if sp else bt
        return w.field_index(sname, ast[2])[1]['type']
    if k == 'index':
        bt = static_type(V, ast[1], pkg, key)
        e = prog.under(bt)[1]
        return e['elem']
    if k == 'call' and ast[1] in ('old',):
        return static_type(V, ast[2][0], pkg, key)
    if k == 'un' and ast[1] == '*':
        bt = static_type(V, ast[2], pkg, key)
        e = prog.under(bt)[1]
        if e.get('kind') == 'ptr':
            return e['elem']
    raise OutOfSubset('static type of %r' % (ast,))


def func_modset(V, key, stack):
    if key in _memo and ALLOC_SINK is None:
        return _memo[key]
    fn = V.world.prog.funcs[key]
    out = set()
    for blk in fn['blocks']:
        for x in blk['instrs']:
            out |= instr_modset(V, fn, x, stack)
    if len(stack) <= 1 and ALLOC_SINK is None:
        _memo[key] = out
    return out


def block_modset(V, fnkey, blocks):
    fn = V.world.prog.funcs[fnkey]
    out = set()
    c = V.contracts['funcs'].get(fnkey) if fnkey == getattr(V, 'fnkey', None) else None
    counting = c is not None and 'countcalls' in c.get('flags', ())
    for b in blocks:
        for x in fn['blocks'][b]['instrs']:
            out |= instr_modset(V, fn, x, [fnkey])
            if counting and x['op'] in ('Call', 'Go', 'Defer'):
                # flag countcalls: a call made in a loop body advances its counter, so the counter is loop-modified
                nm = x.get('static') or x.get('invoke') or ''
                nm = nm.rsplit('.', 1)[-1]
                if nm:
                    out.add(('ghost', 'ncalls_' + nm, z3.IntSort()))
    if c is not None:
        # an inner loop is entered once per iteration of the enclosing one: its entry counter is loop-modified
        from .symex import cfg_of
        bs_ = set(blocks)
        for h_, l_ in cfg_of(V.world.prog, fnkey)['loops'].items():
            if h_ in bs_ and set(l_['body']) < bs_:
                out.add(('ghost', 'entered_L%d' % l_['ordinal'], z3.IntSort()))
    return out
