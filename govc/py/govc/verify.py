"""Per-function VC generation driver and the solver race."""
import os
import re
import subprocess
import tempfile
import time
import z3
from .world import World, OutOfSubset, LValue, FuncVal
from .heap import Heap, Verifier
from .symex import Exec, well_typed
from .speceval import SpecEval, SV
from .spec import SpecError
from .calls import assign_targets, alloc_spaces, alloc_key_of

I = z3.IntSort()


def gen_function(world, contracts, externals, key):
    """returns Verifier with obligations, or raises OutOfSubset"""
    prog = world.prog
    V = Verifier(world, contracts, externals, key)
    V.inline_stack = [key]
    V.entry_variant = None
    Exec.seq = 0
    X = Exec(V, key, 0)
    X.localcells = set()
    V.anc = X.cfg['anc']
    fn = X.fn
    c = contracts['funcs'].get(key)
    H0 = Heap(V)
    V.top_entry_heap = H0
    V.cur_block = None
    args = []
    env = {}
    for p in fn['params'] + fn['freevars']:
        tk = p['type']
        if prog.kind(tk) == 'func':
            args.append(FuncVal(None))
            continue
        v = z3.Const('p_' + p['name'], world.sort(tk))
        args.append(v)
        env[p['name']] = SV(v, tk)
        for f in well_typed(V, H0, v, tk):
            V.add_hyp(f)
    for p in fn['freevars']:
        V.add_hyp(z3.Const('p_' + p['name'], world.sort(p['type'])) != 0)
    # captured variables are distinct variables of the enclosing function
    bytype = {}
    for p in fn['freevars']:
        bytype.setdefault(p['type'], []).append(z3.Const('p_' + p['name'], world.sort(p['type'])))
    for ty, ps in bytype.items():
        if len(ps) > 1 and prog.kind(ty) == 'ptr':
            V.add_hyp(z3.Distinct(*ps))
    # freevars are addresses of captured variables: spec sees their contents
    from .world import LValue as LV
    for p in fn['freevars']:
        uk, e = prog.under(p['type'])
        if e['kind'] == 'ptr' and prog.kind(e['elem']) != 'struct':
            env[p['name']] = LV('cell', (e['elem'], z3.Const('p_' + p['name'], I)), e['elem'])
    pkg = X.pkg
    V.param_env = dict(env)
    V.param_pkg = pkg
    ev0 = SpecEval(V, pkg, env, H0, old=H0)
    try:
        if c is not None:
            for (lab, ast, txt) in c['requires']:
                V.add_hyp(ev0.boolean(ast))
            for (lab, ast, txt) in c.get('entry') or []:
                V.add_hyp(ev0.boolean(ast))
                V.notes.append('entry assumption of %s, not checked at its call sites: [%s] %s' % (V.shown, lab or '', txt))
            if c.get('decreases') is not None:
                V.entry_variant = ev0.ev(c['decreases'][0]).t
        # axioms of the function's own package are hypotheses; lemmas are proved on their own and are only
        # used where a contract names them (`uses`), so that one package's arithmetic never burdens another's VCs
        uses = set(c.get('uses', [])) if c is not None else set()
        for (lab, ast, txt, f) in contracts['axioms']:
            if pkg_of_file(f, pkg) == pkg:
                V.global_hyps.append(SpecEval(V, pkg, {}, H0, old=H0).boolean(ast))
        for (lab, ast, txt, f) in contracts['lemmas']:
            if lab in uses:
                V.global_hyps.append(SpecEval(V, pkg_of_file(f, pkg), {}, H0, old=H0).boolean(ast))
    except SpecError as e:
        raise OutOfSubset('contract of %s: %s' % (key, e))
    V.entry_lock_depth = H0.get(('ghost', 'lock_Lock', I)) - H0.get(('ghost', 'lock_Unlock', I))
    V.pre_hyps = len(V.hyps)
    rr, res, hp = X.run(args, H0, z3.BoolVal(True))
    V.cur_block = None
    V.exit_reach = rr
    V.result_terms = res
    if c is not None:
        renv = dict(env)
        rsv = []
        for i, r in enumerate(fn['results']):
            if i < len(res):
                sv = SV(res[i], r['type'])
                rsv.append(sv)
                if r['name'] and r['name'] != '_':
                    renv[r['name']] = sv
        apply_ghostsets(V, c, pkg, renv, hp, H0, rsv, rr)
        ev1 = SpecEval(V, pkg, renv, hp, old=H0, results=rsv)
        try:
            # postconditions are proved in the order written; each one, once stated as an obligation, may be used
            # as a hypothesis by the later ones (cut rule) - this is how contracts pass proof hints to the solver
            V.cur_block = None
            for k, (lab, ast, txt) in enumerate(c['ensures']):
                g_ = ev1.boolean(ast)
                V.add_obl('post', g_, rr, fn.get('pos', ''), label=lab or str(k), text=txt)
                V.add_hyp(z3.Implies(rr, g_))
            if 'noframe' not in c['flags']:
                frame_obligations(V, X, c, ev0, H0, hp, rr, pkg)
        except SpecError as e:
            raise OutOfSubset('contract of %s: %s' % (key, e))
    if c is not None and c.get('returns'):
        for (lab, ast, txt) in c['returns']:
            if getattr(V, 'return_clause_sites', {}).get(lab, 0) == 0:
                raise OutOfSubset('return clause [%s] of %s applies to no return statement (a variable it names no longer exists)' % (lab, key))
    if c is not None and c.get('loops'):
        from .symex import cfg_of
        have_ = {l['ordinal'] for l in cfg_of(world.prog, key)['loops'].values()}
        for k_ in c['loops']:
            if k_ not in have_:
                raise OutOfSubset('the contract of %s names loop %s but the function has only %d loops (a loop was removed or merged)' % (key, k_, len(have_)))
    seen_ = getattr(V, 'call_clause_seen', {})
    if c is not None:
        for (ckey_, lab_, ast_, txt_) in c.get('calls') or []:
            seen_.setdefault((ckey_, lab_), 0)
        for (tgt_, lab_, ast_, txt_) in c.get('stores') or []:
            seen_.setdefault(('store:' + tgt_, lab_), 0)
    for (ck_, n_) in seen_.items():
        if n_ == 0:
            raise OutOfSubset('call clause [%s] for %s in %s applies to no call site (a variable it names does not exist where the call is made)' % (ck_[1], ck_[0], key))
    for key_ in getattr(V, 'step_clause_skipped', ()):
        if getattr(V, 'step_clause_sites', {}).get(key_, 0) == 0:
            raise OutOfSubset('step clause [%s] of loop %s in %s applies to no back edge (a variable it names no longer exists)' % (key_[1], key_[0], key))
    V.global_hyps += world.string_axioms()
    return V


def ghost_key(world, name, binders, pkg):
    from .speceval import resolve_type
    if not binders:
        return ('ghost', name, I)
    so = I
    space = None
    for (bn, bt) in reversed(binders):
        ty = resolve_type(world, bt, pkg)
        so = z3.ArraySort(world.sort(ty), so)
    sp = world.prog.struct_of_ptr(resolve_type(world, binders[0][1], pkg))
    if sp is not None:
        return ('ghost', name, so, sp[0])
    return ('ghost', name, so)


def apply_ghostsets(V, c, pkg, env, heap, oldheap, results, reach, hyp=None):
    """ghost assignments performed when the function returns: the ghost component of `heap` is replaced by a value
    defined (pointwise) by the given expression over the final state and old()"""
    from .speceval import resolve_type
    world = V.world
    add = hyp or V.add_hyp
    for (name, binders, ast, txt) in c.get('ghostsets', []):
        key = ghost_key(world, name, binders, pkg)
        ev = SpecEval(V, pkg, env, heap, old=oldheap, results=results)
        if not binders:
            val = ev.ev(ast).t
            nv = V.fresh_heap_const(key, 'gs')
            add(z3.Implies(reach, nv == val))
            heap.set(key, nv)
            continue
        env2 = dict(env)
        vs = []
        bnd = {}
        for (bn, bt) in binders:
            ty = resolve_type(world, bt, pkg)
            cst = z3.Const('gs_' + bn, world.sort(ty))
            vs.append(cst)
            env2[bn] = SV(cst, ty)
            bnd[bn] = env2[bn]
        ev2 = SpecEval(V, pkg, env2, heap, old=oldheap, results=results)
        ev2.bound = bnd
        val = ev2.ev(ast).t
        nv = V.fresh_heap_const(key, 'gs')
        sel = nv
        for cst in vs:
            sel = sel[cst]
        add(z3.Implies(reach, z3.ForAll(vs, sel == val, patterns=[sel])))
        heap.set(key, nv)


def pkg_of_file(f, default):
    # package of a contract file relative to its module root (works for /repo and for scratch worktrees alike)
    from .spec import _pkg_of_file
    pk = _pkg_of_file(f) if f else None
    return pk if pk is not None else default


def frame_obligations(V, X, c, ev0, H0, hp, rr, pkg):
    """everything not named in assigns/allocates is unchanged for objects allocated at entry"""
    targets = {}
    for (ast, txt) in (c['assigns'] or []):
        for (hk, loc) in assign_targets(X, ast, ev0):
            targets.setdefault(hk, []).append(loc)
    allocs = dict()
    for (ak, hkeys) in alloc_spaces(X, c['allocates'], pkg):
        allocs[ak] = hkeys
    r = z3.Const('fr_r', I)
    for hk in sorted(hp.d.keys(), key=str):
        newv = hp.get(hk)
        oldv = H0.get(hk)
        if newv.eq(oldv):
            continue
        name = '_'.join(str(x) for x in hk)
        if hk[0] == 'alloc':
            if hk not in allocs:
                if hk[1].startswith('cell:') or hk[1] in ('arr',):
                    continue   # local temporaries (escape analysis artefacts) are not observable
                if getattr(V, 'alloc_kinds', {}).get(hk[1]) == {False}:
                    continue   # only stack locals of that type were allocated
                V.add_obl('frame', newv == oldv, rr, label='alloc.' + name, text='allocates clause does not list ' + hk[1])
            continue
        if hk[0] == 'ghost' and (str(hk[1]).startswith('visited_') or str(hk[1]).startswith('ncalls_') or str(hk[1]).startswith('fncalls_') or str(hk[1]).startswith('fnarg') or str(hk[1]).startswith('entered_L')):
            continue       # verification bookkeeping (keys delivered by a map range, call counters of flag countcalls): not program state
        if hk[0] == 'g' or (hk[0] == 'ghost' and len(hk) <= 3):
            if hk not in targets:
                V.add_obl('frame', newv == oldv, rr, label=name, text='not in assigns')
            continue
        locs = targets.get(hk)
        if locs is not None and any(l is None for l in locs):
            continue
        ak = alloc_key_of(hk)
        conds = [r >= 1, r <= H0.get(ak)]
        if locs:
            conds += [r != l for l in locs]
        V.add_obl('frame', z3.ForAll([r], z3.Implies(z3.And(*conds), newv[r] == oldv[r])), rr, label=name,
                  text='only locations named in assigns may change')


def obligation_smt2(V, ob, timeout_ms=None):
    s = z3.Solver()
    for h in V.hyps_for(ob):
        s.add(h)
    s.add(ob.reach)
    s.add(z3.Not(ob.goal))
    if ob.kind == 'post':
        for i, t in enumerate(getattr(V, 'result_terms', [])):
            if z3.is_expr(t):
                s.add(z3.Const('govc_result_%d' % i, t.sort()) == t)
    return s.to_smt2()


SOLVERS = {
    'z3-5.1': lambda f, t: ['z3-new', '-T:%d' % t, f],
    'z3-4.8': lambda f, t: ['/usr/bin/z3', '-T:%d' % t, f],
    'cvc5': lambda f, t: ['cvc5', '--tlimit=%d' % (t * 1000), f],
}


def run_solver(name, path, timeout):
    t0 = time.time()
    try:
        p = subprocess.run(SOLVERS[name](path, timeout), capture_output=True, text=True, timeout=timeout + 5)
        out = (p.stdout or '').strip().splitlines()
        first = out[0].strip() if out else ''
        if first not in ('sat', 'unsat', 'unknown'):
            first = 'error' if 'error' in (p.stdout + p.stderr).lower() else ('timeout' if 'timeout' in (p.stdout + p.stderr).lower() else 'unknown')
        return first, time.time() - t0, (p.stdout or '')[:2000]
    except subprocess.TimeoutExpired:
        return 'timeout', time.time() - t0, ''


def run_inprocess(smt2, timeout, ematch_only=False):
    """z3 5.1 through z3py in this (worker) process, fresh context per query"""
    t0 = time.time()
    ctx = z3.Context()
    s = z3.SolverFor('ALL', ctx=ctx) if False else z3.Solver(ctx=ctx)
    s.set('timeout', int(timeout * 1000))
    if ematch_only:
        # E-matching only (no model-based instantiation, no auto configuration): decides the quantified VCs
        # of this engine in milliseconds where the default configuration wanders; cannot answer sat
        s.set('auto_config', False)
        s.set('mbqi', False)
    try:
        s.from_string(smt2)
        r = s.check()
    except z3.Z3Exception as e:
        return 'error', time.time() - t0, str(e)[:500]
    model = None
    if r == z3.sat:
        try:
            m = s.model()
            model = {str(d.name()): str(m[d]) for d in m.decls() if d.arity() == 0 and not z3.is_array(m[d])}
            ps = [d for d in m.decls() if d.arity() == 0 and str(d.name()).startswith('p_') and z3.is_int(d())]
            for d in m.decls():
                nm = str(d.name())
                if d.arity() == 0 and nm.startswith('H0_f_') and z3.is_array(d()):
                    for p in ps:
                        model['%s[%s]' % (nm, p.name())] = str(m.eval(d()[p()], model_completion=True))
        except z3.Z3Exception:
            model = None
    return str(r), time.time() - t0, model


def solve_text(smt2, timeout, workdir, tag, order=('z3-5.1', 'z3-4.8', 'cvc5'), first_timeout=None):
    """returns dict(verdict, solver, time, details).
    1. z3 5.1 in-process, E-matching only (<= 4 s): decides almost every VC of this engine in milliseconds;
    2. if that does not answer unsat: z3 5.1 (default configuration, in-process) and the external back ends
       (z3 4.8.12, cvc5) run concurrently; a definite answer of z3 5.1 ends the race, otherwise a sat of any back end
       wins over an unsat of another (reported as undischarged)."""
    import threading
    # one file per obligation: long names are cut, so the name alone does not identify the obligation - a digest of the
    # full name and of the text does (two obligations sharing a file would let an external back end answer for the
    # wrong one)
    import hashlib
    dg_ = hashlib.sha1((tag + '\0' + smt2).encode()).hexdigest()[:16]
    path = os.path.join(workdir, re.sub(r'[^A-Za-z0-9_.#\[\]-]', '_', tag)[:120] + '.' + dg_ + '.smt2')
    with open(path, 'w') as f:
        f.write(smt2)
    details = {}
    verdict = 'unknown'
    winner = None
    t_begin = time.time()
    ft = first_timeout or timeout
    model = None
    rest = list(order)
    use_inproc = bool(rest) and rest[0] == 'z3-5.1'
    if use_inproc:
        rest = rest[1:]
        res, dt, model = run_inprocess(smt2, min(ft, 8), ematch_only=True)
        details['z3-5.1/ematch'] = (res, round(dt, 3))
        if res == 'unsat':
            verdict, winner = res, 'z3-5.1'
    if verdict == 'unknown':
        procs = {}
        box = {}

        def work(name):
            t0 = time.time()
            try:
                p = subprocess.Popen(SOLVERS[name](path, timeout), stdout=subprocess.PIPE, stderr=subprocess.PIPE, text=True)
                procs[name] = p
                try:
                    out, err = p.communicate(timeout=timeout + 5)
                except subprocess.TimeoutExpired:
                    p.kill()
                    box[name] = ('timeout', time.time() - t0, '')
                    return
                lines = (out or '').strip().splitlines()
                first = lines[0].strip() if lines else ''
                if first not in ('sat', 'unsat', 'unknown'):
                    low = ((out or '') + (err or '')).lower()
                    first = 'error' if 'error' in low else ('timeout' if 'timeout' in low else 'unknown')
                box[name] = (first, time.time() - t0, (out or '')[:2000])
            except Exception as e:       # a back end that cannot be started never discharges anything
                box[name] = ('error', time.time() - t0, str(e)[:300])
        def work_inproc():
            res_, dt_, model_ = run_inprocess(smt2, ft)
            box['z3-5.1'] = (res_, dt_, model_)
        names = list(rest)
        ths = [threading.Thread(target=work, args=(n,), daemon=True) for n in rest]
        if use_inproc:
            names = ['z3-5.1'] + names
            ths.append(threading.Thread(target=work_inproc, daemon=True))
        for t in ths:
            t.start()
        # the race ends when every back end has answered, on the first sat, or 2 s after the first unsat (the grace
        # period lets a disagreeing back end speak up; a sat always wins)
        first_unsat = None
        while True:
            done = [n for n in names if n in box]
            if any(box[n][0] == 'sat' for n in done):
                break
            if len(done) == len(names):
                break
            if first_unsat is None and any(box[n][0] == 'unsat' for n in done):
                first_unsat = time.time()
            if first_unsat is not None and time.time() - first_unsat > 2.0:
                break
            if time.time() - t_begin > timeout + 12:
                break
            time.sleep(0.02)
        for p in list(procs.values()):
            try:
                p.kill()
            except Exception:
                pass
        for n in names:
            r_ = box.get(n, ('unknown', 0, ''))
            details[n] = (r_[0], round(r_[1], 3))
            if n == 'z3-5.1' and r_[0] == 'sat':
                model = r_[2]
        for n in names:
            if details[n][0] == 'sat':
                verdict, winner = 'sat', n
                break
        if verdict == 'unknown':
            for n in names:
                if details[n][0] == 'unsat':
                    verdict, winner = 'unsat', n
                    break
    if verdict == 'unsat':
        try:
            os.unlink(path)
        except OSError:
            pass
    return {'verdict': verdict, 'solver': winner, 'time': round(time.time() - t_begin, 3), 'details': details, 'path': path, 'model': model}


def gen_lemmas(world, contracts, externals, pkg):
    """lemmas of one package's contract files: each is proved from the axioms and the lemmas before it"""
    V = Verifier(world, contracts, externals, 'lemma:' + pkg)
    V.pure_arith = True      # lemmas are about real arithmetic itself
    V.top_entry_heap = Heap(V)
    H0 = V.top_entry_heap
    out = []
    prior = []
    for (lab, ast, txt, f) in contracts['axioms']:
        prior.append(SpecEval(V, pkg_of_file(f, pkg), {}, H0, old=H0).boolean(ast))
    for (lab, ast, txt, f) in contracts['lemmas']:
        if pkg_of_file(f, pkg) != pkg:
            continue
        g = SpecEval(V, pkg, {}, H0, old=H0).boolean(ast)
        s = z3.Solver()
        for h in prior + V.global_hyps + world.string_axioms():
            s.add(h)
        s.add(z3.Not(g))
        out.append(('lemma:%s.%s' % (pkg, lab), s.to_smt2()))
        prior.append(g)
    return out
