"""Contract language: tokenizer, Pratt parser for expressions, contract-file parser.

Contract files are comment-only Go files (//go:build verif) with lines starting `//@`.
"""
import re

TOK = re.compile(r'''
    (?P<ws>\s+)
  | (?P<float>\d+\.\d+)
  | (?P<num>\d+)
  | (?P<str>"(?:[^"\\]|\\.)*")
  | (?P<chr>'(?:[^'\\]|\\.)')
  | (?P<id>[A-Za-z_][A-Za-z_0-9$]*)
  | (?P<op><==>|==>|::|:=|==|!=|<=|>=|&&|\|\||\[\]|[-+*/%<>!?:.,()\[\]{}#@])
''', re.X)


class SpecError(Exception):
    pass


def tokenize(s):
    out = []
    i = 0
    while i < len(s):
        m = TOK.match(s, i)
        if not m:
            raise SpecError('bad token at %r' % s[i:i + 20])
        i = m.end()
        k = m.lastgroup
        if k == 'ws':
            continue
        out.append((k, m.group(k)))
    out.append(('eof', ''))
    return out


BINPREC = {
    '<==>': 1, '==>': 2, '||': 3, '&&': 4,
    '==': 5, '!=': 5, '<': 5, '<=': 5, '>': 5, '>=': 5,
    '+': 6, '-': 6, '*': 7, '/': 7, '%': 7,
}


class Parser:
    def __init__(self, s):
        self.s = s
        self.t = tokenize(s)
        self.i = 0

    def peek(self, k=0):
        return self.t[self.i + k]

    def next(self):
        x = self.t[self.i]
        self.i += 1
        return x

    def accept(self, v):
        if self.peek()[1] == v and self.peek()[0] in ('op', 'id'):
            self.i += 1
            return True
        return False

    def expect(self, v):
        if not self.accept(v):
            raise SpecError('expected %r at token %d (%r) in %r' % (v, self.i, self.peek()[1], self.s))

    def parse_type(self):
        pre = ''
        while True:
            if self.accept('*'):
                pre += '*'
            elif self.accept('[]'):
                pre += '[]'
            elif self.peek()[1] == '[' and self.peek(1)[1] == ']':
                self.i += 2
                pre += '[]'
            else:
                break
        k, v = self.next()
        if k != 'id':
            raise SpecError('type expected in %r' % self.s)
        name = v
        while self.peek()[1] in ('.', '/'):
            name += self.next()[1]
            name += self.next()[1]
        if name == 'map':
            self.expect('[')
            kt = self.parse_type()
            self.expect(']')
            vt = self.parse_type()
            name = 'map[%s]%s' % (kt, vt)
        return pre + name

    def parse_binders(self):
        bs = []
        while True:
            k, v = self.next()
            if k != 'id':
                raise SpecError('binder name expected in %r' % self.s)
            t = self.parse_type()
            bs.append((v, t))
            if not self.accept(','):
                break
        return bs

    def parse_expr(self, prec=0):
        k, v = self.peek()
        if k == 'id' and v in ('forall', 'exists'):
            self.next()
            bs = self.parse_binders()
            self.expect('::')
            trig = []
            while self.peek()[1] == '{':
                self.next()
                tr = [self.parse_expr()]
                while self.accept(','):
                    tr.append(self.parse_expr())
                self.expect('}')
                trig.append(tr)
            body = self.parse_expr(0)
            return (v, bs, trig, body)
        if k == 'id' and v == 'let':
            self.next()
            name = self.next()[1]
            self.expect(':=')
            e = self.parse_expr(1)
            self.expect('in')
            body = self.parse_expr(0)
            return ('let', name, e, body)
        left = self.parse_unary()
        while True:
            k, v = self.peek()
            if k == 'op' and v == '?' and prec <= 0:
                self.next()
                a = self.parse_expr(1)
                self.expect(':')
                b = self.parse_expr(0)
                left = ('ite', left, a, b)
                continue
            if k == 'op' and v in BINPREC and BINPREC[v] >= max(prec, 1):
                p = BINPREC[v]
                self.next()
                if v in ('==>',):
                    # right assoc; rhs may start with a quantifier
                    right = self.parse_expr(p)
                else:
                    right = self.parse_expr(p + 1)
                left = ('bin', v, left, right)
                continue
            break
        return left

    def parse_unary(self):
        k, v = self.peek()
        if k == 'op' and v in ('!', '-', '*'):
            self.next()
            e = self.parse_unary()
            return ('un', v, e)
        if k == 'id' and v in ('forall', 'exists', 'let'):
            return self.parse_expr(0)
        return self.parse_postfix()

    def parse_postfix(self):
        e = self.parse_primary()
        while True:
            k, v = self.peek()
            if v == '.' and k == 'op':
                self.next()
                name = self.next()[1]
                e = ('field', e, name)
            elif v == '[' and k == 'op':
                self.next()
                if self.accept(':'):
                    hi = self.parse_expr()
                    self.expect(']')
                    e = ('slice', e, None, hi)
                    continue
                i = self.parse_expr()
                if self.accept(':'):
                    hi = None
                    if self.peek()[1] != ']':
                        hi = self.parse_expr()
                    self.expect(']')
                    e = ('slice', e, i, hi)
                else:
                    self.expect(']')
                    e = ('index', e, i)
            elif v == '(' and k == 'op' and e[0] in ('id', 'field'):
                self.next()
                args = []
                if not self.accept(')'):
                    args.append(self.parse_expr())
                    while self.accept(','):
                        args.append(self.parse_expr())
                    self.expect(')')
                if e[0] == 'id':
                    e = ('call', e[1], args)
                else:
                    e = ('mcall', e[1], e[2], args)
            else:
                break
        return e

    def parse_primary(self):
        k, v = self.next()
        if k == 'num':
            return ('num', int(v))
        if k == 'float':
            return ('float', v)
        if k == 'str':
            return ('str', bytes(v[1:-1], 'utf-8').decode('unicode_escape'))
        if k == 'chr':
            return ('num', ord(bytes(v[1:-1], 'utf-8').decode('unicode_escape')))
        if k == 'id':
            if v == 'true':
                return ('bool', True)
            if v == 'false':
                return ('bool', False)
            if v == 'nil':
                return ('nil',)
            return ('id', v)
        if k == 'op' and v == '(':
            e = self.parse_expr()
            self.expect(')')
            return e
        raise SpecError('unexpected %r in %r' % (v, self.s))


def parse_expr(s):
    p = Parser(s)
    e = p.parse_expr()
    if p.peek()[0] != 'eof':
        raise SpecError('trailing tokens %r in %r' % (p.peek()[1], s))
    return e


KEYWORDS = ('spec', 'define', 'axiom', 'lemma', 'func', 'requires', 'ensures', 'assigns', 'allocates',
            'loop', 'invariant', 'decreases', 'flag', 'ghostvar', 'call', 'import', 'at', 'property', 'end', 'step', 'send', 'guarded', 'uses', 'recv', 'return', 'ghostset', 'store', 'entry', 'complete')


def _label(s):
    m = re.match(r'\s*\[([A-Za-z0-9_.\-]+)\]\s*(.*)$', s, re.S)
    if m:
        return m.group(1), m.group(2)
    return None, s


def parse_sig(s):
    """name(a T, b U) R  -> (name, [(a,T),(b,U)], R)"""
    p = Parser(s)
    name = p.next()[1]
    p.expect('(')
    params = []
    if not p.accept(')'):
        params = p.parse_binders()
        p.expect(')')
    ret = p.parse_type()
    return name, params, ret, p


def parse_contract_text(text, fname='?'):
    """returns the contract dict for one file"""
    lines = []
    for ln in text.splitlines():
        ln = ln.strip()
        if ln.startswith('//@'):
            lines.append(ln[3:])
    # group: a clause starts with a keyword token; continuation lines are appended
    clauses = []
    for ln in lines:
        st = ln.strip()
        if not st or st.startswith('//'):
            continue
        # strip trailing line comments introduced by ' // '
        st = re.sub(r'\s//\s.*$', '', st)
        w = st.split(None, 1)
        mq_ = re.match(r'^return@L(\d+)$', w[0])
        if mq_:
            # return@Lk [label] expr: only the return statements inside loop k
            w = ['return', '@L%s %s' % (mq_.group(1), w[1] if len(w) > 1 else '')]
        if w[0] in KEYWORDS:
            clauses.append([w[0], w[1] if len(w) > 1 else ''])
        else:
            if not clauses:
                raise SpecError('%s: continuation without clause: %r' % (fname, st))
            clauses[-1][1] += ' ' + st
    out = {'specs': {}, 'defines': {}, 'axioms': [], 'lemmas': [], 'funcs': {}, 'file': fname}
    cur = None
    curloop = None
    for kw, rest in clauses:
        try:
            if kw == 'spec':
                name, params, ret, p = parse_sig(rest)
                out['specs'][name] = (params, ret)
            elif kw == 'define':
                idx = _find_define_eq(rest)
                name, params, ret, p = parse_sig(rest[:idx])
                body = parse_expr(rest[idx + 1:])
                out['defines'][name] = (params, ret, body)
            elif kw == 'axiom':
                lab, r = _label(rest)
                out['axioms'].append((lab, parse_expr(r), r))
            elif kw == 'lemma':
                lab, r = _label(rest)
                out['lemmas'].append((lab, parse_expr(r), r))
            elif kw == 'func':
                key = rest.strip()
                cur = out['funcs'].setdefault(key, {'requires': [], 'ensures': [], 'assigns': None, 'allocates': [],
                                                     'loops': {}, 'flags': set(), 'ghost': [], 'asserts': []})
                curloop = None
            elif kw == 'end':
                cur = None
                curloop = None
            elif cur is None:
                raise SpecError('%s: clause %s outside func' % (fname, kw))
            elif kw == 'loop':
                k = int(rest.strip())
                curloop = cur['loops'].setdefault(k, {'invariant': [], 'decreases': None, 'assigns': None, 'step': []})
            elif kw == 'entry':
                # entry [label] expr: a precondition the body is verified under that is NOT asserted at call sites
                # (reported in evidence as an unchecked entry assumption of this function)
                lab, r = _label(rest)
                cur.setdefault('entry', []).append((lab, parse_expr(r), r))
                curloop = None
            elif kw == 'requires':
                lab, r = _label(rest)
                cur['requires'].append((lab, parse_expr(r), r))
                curloop = None
            elif kw == 'ensures':
                lab, r = _label(rest)
                cur['ensures'].append((lab, parse_expr(r), r))
                curloop = None
            elif kw == 'invariant':
                lab, r = _label(rest)
                curloop['invariant'].append((lab, parse_expr(r), r))
            elif kw == 'step':
                lab, r = _label(rest)
                curloop['step'].append((lab, parse_expr(r), r))
            elif kw == 'complete':
                # complete [label]: the loop is left only through its head (all iterations done) or by returning /
                # panicking: no break, no jump out of the body (structural obligation)
                lab, r = _label(rest + ' true')
                curloop.setdefault('complete', []).append(lab or '0')
            elif kw == 'call':
                # call <callee key> [label] expr   -- assertion at every call site of that callee in this function
                m = re.match(r'\s*(\S+)\s+(.*)$', rest, re.S)
                lab, r = _label(m.group(2))
                cur.setdefault('calls', []).append((m.group(1), lab, parse_expr(r), r))
                curloop = None
            elif kw == 'store':
                # store <Type.field> [label] expr  -- assertion at every direct store to that field in this function
                # (target = the object written, newval = the value stored, oldval = the field's value just before)
                m = re.match(r'\s*(\S+)\s+(.*)$', rest, re.S)
                lab, r = _label(m.group(2))
                cur.setdefault('stores', []).append((m.group(1), lab, parse_expr(r), r))
                curloop = None
            elif kw == 'send':
                # send <channel variable> [label] expr   -- assertion on every message sent on that channel (msg = the message)
                m = re.match(r'\s*(\S+)\s+(.*)$', rest, re.S)
                lab, r = _label(m.group(2))
                cur.setdefault('sends', []).append((m.group(1), lab, parse_expr(r), r))
                curloop = None
            elif kw == 'return':
                lq_ = None
                mq_ = re.match(r'^\s*@L(\d+)\s+(.*)$', rest, re.S)
                if mq_:
                    lq_, rest = int(mq_.group(1)), mq_.group(2)
                lab, r = _label(rest)
                if lq_ is not None:
                    lab = '%s@L%d' % (lab or '0', lq_)
                cur.setdefault('returns', []).append((lab, parse_expr(r), r))
                curloop = None
            elif kw == 'ghostset':
                # ghostset name := expr            (integer ghost variable, assigned when the function returns)
                # ghostset name(a T, b U) := expr  (ghost function of the heap, redefined pointwise when the function returns)
                m = re.match(r'\s*([A-Za-z_][A-Za-z_0-9]*)\s*(\((.*?)\))?\s*:=\s*(.*)$', rest, re.S)
                if not m:
                    raise SpecError('ghostset syntax')
                binders = []
                if m.group(3):
                    binders = Parser(m.group(3)).parse_binders()
                cur.setdefault('ghostsets', []).append((m.group(1), binders, parse_expr(m.group(4)), rest))
                curloop = None
            elif kw == 'uses':
                cur.setdefault('uses', []).extend(x.strip() for x in rest.split(',') if x.strip())
            elif kw == 'recv':
                # recv <channel variable> [label] expr  -- message invariant ASSUMED for every message received on that channel
                m = re.match(r'\s*(\S+)\s+(.*)$', rest, re.S)
                lab, r = _label(m.group(2))
                cur.setdefault('recvs', []).append((m.group(1), lab, parse_expr(r), r))
                curloop = None
            elif kw == 'guarded':
                cur.setdefault('guarded', []).extend(x.strip() for x in rest.split(',') if x.strip())
            elif kw == 'decreases':
                tgt = curloop if curloop is not None else cur
                tgt['decreases'] = (parse_expr(rest), rest)
            elif kw == 'assigns':
                items = _split_top(rest)
                tgt = curloop if curloop is not None else cur
                tgt['assigns'] = [(parse_expr(x), x) for x in items if x.strip() and x.strip() != 'nothing']
            elif kw == 'allocates':
                cur['allocates'] = [x.strip() for x in rest.split(',') if x.strip()]
            elif kw == 'flag':
                for x in rest.split():
                    cur['flags'].add(x)
            elif kw == 'ghostvar':
                cur['ghost'].append(rest.strip())
            else:
                raise SpecError('%s: unknown clause %s' % (fname, kw))
        except SpecError as e:
            raise SpecError('%s: in clause "%s %s": %s' % (fname, kw, rest[:80], e))
    return out


def _find_define_eq(s):
    depth = 0
    for i, c in enumerate(s):
        if c in '([':
            depth += 1
        elif c in ')]':
            depth -= 1
        elif c == '=' and depth == 0 and s[i + 1:i + 2] != '=' and s[i - 1:i] not in ('=', '!', '<', '>', ':'):
            return i
    raise SpecError('define without = : %r' % s)


def _split_top(s):
    out = []
    depth = 0
    cur = ''
    for c in s:
        if c in '([':
            depth += 1
        elif c in ')]':
            depth -= 1
        if c == ',' and depth == 0:
            out.append(cur)
            cur = ''
        else:
            cur += c
    if cur.strip():
        out.append(cur)
    return out


TREEOP_ASSIGNS = ['allfields("tree.Node")', 'allfields("tree.Edge")', 'allfields("tree.Tree")', 'elems("*tree.Node")', 'elems("*tree.Edge")',
                  'elems("string")', 'mapof("map[string]*tree.Node")', 'ghost(bs_bits)', 'ghost(bs_len)']
TREEOP_ALLOCATES = ['tree.Node', 'tree.Edge', 'tree.Tree', '[]*tree.Node', '[]*tree.Edge', '[]string', 'map[string]*tree.Node', 'bitset.BitSet', 'iface']


def expand_flags(c):
    """flag treeop: a thin contract of a tree operation - may rewrite any field of any node / branch / tree object,
    neighbour and comment arrays and the tip index, and may allocate such objects; nothing else"""
    if 'treeop' in c['flags']:
        c['assigns'] = (c['assigns'] or []) + [(parse_expr(x), x) for x in TREEOP_ASSIGNS]
        c['allocates'] = list(c['allocates']) + [x for x in TREEOP_ALLOCATES if x not in c['allocates']]


def _pkg_of_file(f):
    """package path (relative to the module root, as in the IR's type keys) of a contract file"""
    import os
    if not f:
        return None
    d = os.path.dirname(os.path.abspath(f))
    root = d
    while root != '/' and not os.path.exists(os.path.join(root, 'go.mod')):
        root = os.path.dirname(root)
    if root == '/':
        return None
    rel = os.path.relpath(d, root)
    return None if rel == '.' else rel


def merge_contracts(cs):
    out = {'specs': {}, 'defines': {}, 'axioms': [], 'lemmas': [], 'funcs': {}, 'ghostfuncs': {}}
    for c in cs:
        out['specs'].update(c['specs'])
        out['defines'].update(c['defines'])
        pk_ = _pkg_of_file(c.get('file'))
        for nm_ in list(c['defines']) + list(c['specs']):
            out.setdefault('defpkg', {})[nm_] = pk_
        # the same name may be declared by several packages (pw/pm of the two parsers): a package sees its own first
        out.setdefault('defines_pkg', {}).setdefault(pk_, {}).update(c['defines'])
        out['axioms'] += [(l, a, t, c.get('file')) for (l, a, t) in c['axioms']]
        out['lemmas'] += [(l, a, t, c.get('file')) for (l, a, t) in c['lemmas']]
        for k, v in c['funcs'].items():
            if k in out['funcs']:
                raise SpecError('duplicate contract for ' + k)
            v['file'] = c.get('file')
            expand_flags(v)
            out['funcs'][k] = v
            for (gname, binders, ast, txt) in v.get('ghostsets', []):
                if binders:
                    pk = _pkg_of_file(c.get('file')) or ''
                    out.setdefault('ghostfuncs', {})[gname] = (binders, pk)
    return out
