"""./check <property-id> <quick|thorough>  -- the command registered in MANIFEST.json"""
import hashlib
import importlib.util
import json
import os
import re
import subprocess
import sys
import time
import z3

VERIF = os.path.abspath(os.path.join(os.path.dirname(__file__), '..', '..', '..'))
REPO = os.environ.get('VERIF_REPO', '/repo')
CACHE = os.environ.get('GOVC_CACHE', '/var/tmp/govc-cache')
GOENV = dict(os.environ, GOFLAGS='-mod=mod', GOPROXY='off', GOSUMDB='off', GOTOOLCHAIN='local')


def load_props():
    spec = importlib.util.spec_from_file_location('props', os.path.join(VERIF, 'contracts', 'props.py'))
    m = importlib.util.module_from_spec(spec)
    spec.loader.exec_module(m)
    return m


def repo_hash(pkgs):
    h = hashlib.sha256()
    for root, dirs, files in os.walk(REPO):
        dirs[:] = sorted(d for d in dirs if d not in ('.git', 'docs', 'images'))
        for f in sorted(files):
            if f.endswith('.go') or f in ('go.mod', 'go.sum'):
                p = os.path.join(root, f)
                h.update(p.encode())
                with open(p, 'rb') as fh:
                    h.update(fh.read())
    h.update(' '.join(pkgs).encode())
    exp = os.path.join(VERIF, 'govc', 'bin', 'govc-export')
    if os.path.exists(exp):
        h.update(str(os.path.getmtime(exp)).encode())
    return h.hexdigest()[:24]


def export_ir(pkgs):
    """mechanical SSA export of /repo's current working tree (cached by content hash of the tree)"""
    os.makedirs(CACHE, exist_ok=True)
    exp = os.path.join(VERIF, 'govc', 'bin', 'govc-export')
    if not os.path.exists(exp):
        subprocess.run(['sh', os.path.join(VERIF, 'setup.sh')], check=True, cwd=VERIF)
    key = repo_hash(pkgs)
    out = os.path.join(CACHE, key + '.json')
    if os.path.exists(out):
        try:
            os.utime(out)          # in use: keep it out of reach of a concurrent run's pruning
        except OSError:
            pass
        return out, None
    # drop stale cache entries (disk is limited); concurrent runs may prune the same file
    for f in os.listdir(CACHE):
        fp = os.path.join(CACHE, f)
        try:
            if f.endswith('.json') and time.time() - os.path.getmtime(fp) > 1800:
                os.unlink(fp)
        except OSError:
            pass
    tmp = out + '.tmp%d' % os.getpid()
    p = subprocess.run([exp, '-dir', REPO, '-o', tmp] + list(pkgs), capture_output=True, text=True, env=GOENV)
    if p.returncode != 0:
        if os.path.exists(tmp):
            os.unlink(tmp)
        return None, (p.stdout + p.stderr)[-3000:]
    os.replace(tmp, out)
    return out, None


def parse_known(path):
    findings, fixed = [], []
    if not os.path.exists(path):
        return findings, fixed
    for ln in open(path):
        ln = ln.strip()
        if not ln or ln.startswith('#'):
            continue
        kind, rest = ln.split(':', 1)
        d = {}
        for m in re.finditer(r'(\w+)=("([^"]*)"|\S+)', rest):
            d[m.group(1)] = m.group(3) if m.group(3) is not None else m.group(2)
        if kind == 'finding':
            findings.append(d)
        elif kind == 'fixed':
            fixed.append(d)
    return findings, fixed


def sanitize(s):
    return re.sub(r'[^A-Za-z0-9_.#\[\]-]', '_', s)[:160]


def main(argv):
    from .ir import Program
    from .world import World, OutOfSubset
    from .dev import load_contracts, get_pool
    from .verify import gen_function, obligation_smt2, solve_text, gen_lemmas
    from . import externals
    if len(argv) >= 2 and argv[0] == 'replay':
        print(open(argv[1]).read())
        return 0
    pid = argv[0]
    tier = argv[1] if len(argv) > 1 else os.environ.get('VERIF_TIER', 'quick')
    seed = int(os.environ.get('VERIF_SEED', '0') or 0)
    t_start = time.time()
    props = load_props()
    P = props.PROPS[pid]
    timeout = P.get('timeout', {}).get(tier, 30 if tier == 'quick' else 180)
    # GOVC_SCRATCH_OUT: experiments on a modified /repo (seeded changes, reverted fixes) must not overwrite the
    # evidence and replays of the registered checks
    outroot = os.environ.get('GOVC_SCRATCH_OUT') or VERIF
    evidence_path = os.path.join(outroot, 'evidence', pid + '.json')
    replay_dir = os.path.join(outroot, 'replays', pid)
    os.makedirs(os.path.dirname(evidence_path), exist_ok=True)
    pool = get_pool(int(os.environ.get('GOVC_JOBS', '16')))
    violations = []     # (obligation name, replay path, suffix)
    outside = []
    known_lines = []
    results = []
    funcs_report = []
    notes = set()

    def write_replay(name, payload):
        os.makedirs(replay_dir, exist_ok=True)
        p = os.path.join(replay_dir, sanitize(name) + '.json')
        with open(p, 'w') as f:
            json.dump(payload, f, indent=1, default=str)
        return p

    irpath, err = export_ir(P['packages'])
    if irpath is None:
        p = write_replay('export#generable', {'obligation': pid + ':export#generable', 'reason': 'SSA export of /repo failed', 'output': err})
        violations.append(('export#generable', p, ' no-failing-input-found'))
        results.append({'name': 'export#generable', 'verdict': 'error', 'time': 0})
        prog = None
    else:
        prog = Program(irpath)
    tasks = []
    contracts = None
    if prog is not None:
        try:
            contracts = load_contracts(REPO, extra=[os.path.join(VERIF, 'contracts', f) for f in P.get('extra_contracts', [])], prog=prog)
        except Exception as e:
            p = write_replay('contracts#generable', {'obligation': 'contracts#generable', 'reason': 'contract files do not parse', 'output': str(e)})
            violations.append(('contracts#generable', p, ' no-failing-input-found'))
            results.append({'name': 'contracts#generable', 'verdict': 'error', 'time': 0})
    gen_time = 0.0
    if prog is not None and contracts is not None:
        keys = list(P.get('functions', []))
        if tier == 'thorough':
            keys += list(P.get('functions_thorough', []))
        outside = []
        # dependency closure: a property also rests on the callees whose contracts its functions assume.  Every such
        # callee whose body some registered check verifies is verified here too (with the obligations that check
        # selects), transitively, so that a change inside a callee is seen by every property that depends on it.
        verified_elsewhere = {}
        for pid2_, P2_ in props.PROPS.items():
            for k2_ in P2_.get('functions', []):
                o2_ = None
                if isinstance(k2_, (tuple, list)):
                    k2_, o2_ = k2_
                rk_ = prog.resolve(k2_)
                prev_ = verified_elsewhere.get(rk_, 'absent')
                if prev_ == 'absent':
                    verified_elsewhere[rk_] = (k2_, dict(o2_) if o2_ else None)
                elif prev_[1] is not None:
                    if not o2_ or 'only' in o2_ or 'only' in prev_[1]:
                        verified_elsewhere[rk_] = (prev_[0], None if not o2_ else prev_[1])
                    else:
                        verified_elsewhere[rk_] = (prev_[0], {'match': sorted(set(prev_[1].get('match', [])) | set(o2_.get('match', [])))})
        listed_ = set()
        for k_ in keys:
            listed_.add(prog.resolve(k_[0] if isinstance(k_, (tuple, list)) else k_))
        dep_of = {}
        qi_ = 0
        while qi_ < len(keys):
            key = keys[qi_]
            qi_ += 1
            only = None
            match = None
            if isinstance(key, (tuple, list)):
                key, opts = key
                opts = opts or {}
                only = opts.get('only')
                match = opts.get('match')
            shown_key = key
            key = prog.resolve(key)
            world = World(prog)
            t0 = time.time()
            expect = P.get('require_contract', True)
            if key not in prog.funcs:
                key = shown_key
                results.append({'name': shown_key + '#generable', 'func': key, 'verdict': 'out_of_subset', 'reason': 'function not found in /repo (renamed or removed)', 'time': 0})
                funcs_report.append({'function': shown_key, 'status': 'missing'})
                continue
            if expect and key not in contracts['funcs']:
                results.append({'name': shown_key + '#generable', 'func': key, 'verdict': 'out_of_subset', 'reason': 'no contract found for function', 'time': 0})
                funcs_report.append({'function': shown_key, 'status': 'no contract'})
                continue
            try:
                V = gen_function(world, contracts, externals.EXT, key)
            except OutOfSubset as e:
                results.append({'name': shown_key + '#generable', 'func': key, 'verdict': 'out_of_subset', 'reason': str(e), 'time': 0})
                funcs_report.append({'function': shown_key, 'status': 'out_of_subset', 'reason': str(e)})
                continue
            except Exception as e:   # engine error: never a silent pass
                import traceback
                results.append({'name': shown_key + '#generable', 'func': key, 'verdict': 'out_of_subset', 'reason': 'engine error: ' + traceback.format_exc()[-1500:], 'time': 0})
                funcs_report.append({'function': shown_key, 'status': 'engine_error'})
                continue
            gen_time += time.time() - t0
            notes.update(V.notes)
            fr = {'function': shown_key, 'file': prog.funcs[key].get('pos', ''), 'obligations': len(V.obls), 'status': 'generated'}
            funcs_report.append(fr)
            for ob in V.obls:
                if ob.kind == 'complete':
                    # structural obligations (a loop is left only through its head) belong to every check of the function
                    tasks.append((key, ob, obligation_smt2(V, ob), 'obl'))
                    continue
                if only is not None and not any(ob.kind == k or ob.kind.startswith(k + '.') for k in only):
                    outside.append(ob.name)
                    continue
                if match is not None and not any(re.search(rx, ob.name.split('#', 1)[1]) for rx in match):
                    outside.append(ob.name)
                    continue
                tasks.append((key, ob, obligation_smt2(V, ob), 'obl'))
            # vacuity guard at every point where something is *assumed* (a callee's contract after a call, the
            # invariants at a loop head): what is assumed there must be consistent in itself, as a whole and in each
            # case its conditional postconditions distinguish.  Only the hypotheses added by the assumption are used,
            # not the caller's context: a case the *caller* excludes is legitimate, a contract that excludes its own
            # case is not (it would discharge everything that follows on that path).
            for k_, (what_, reach_, blk_, hb_, ha_, case_) in enumerate(getattr(V, 'assumption_points', [])):
                sp_ = z3.Solver()
                for h in V.global_hyps:
                    sp_.add(h)
                for (f_, b_) in V.hyps[hb_:ha_]:
                    sp_.add(f_)
                sp_.add(reach_)
                if case_ is not None:
                    sp_.add(case_)
                ps_ = _Pseudo('%s#vacuity.assumed[%d]' % (V.shown, k_), 'vacuity', what_)
                ps_.before = None
                if case_ is not None:
                    # the case taken alone (values of the caller's own variables are part of its terms) must be possible
                    sb_ = z3.Solver()
                    for h in V.global_hyps:
                        sb_.add(h)
                    sb_.add(reach_)
                    sb_.add(case_)
                    ps_.before = sb_.to_smt2()
                tasks.append((key, ps_, sp_.to_smt2(), 'point'))
            fr['obligations'] = len(V.obls) - len([o for o in outside if o.startswith(V.shown + '#')])
            fr['assumed_callee_contracts'] = sorted(getattr(V, 'used_contracts', ()))
            if key in dep_of:
                fr['included_as_dependency_of'] = dep_of[key]
            if not os.environ.get('GOVC_NO_DEPS') and not P.get('no_dependency_closure'):
                clos_ = [k_ for k_ in verified_elsewhere if k_.startswith(key + '$')]      # its function literals
                for ck_ in sorted(getattr(V, 'used_contracts', ())) + sorted(clos_) + sorted(getattr(V, 'inlined_contracts', ())):
                    rk_ = prog.resolve(ck_)
                    if rk_ in listed_ or rk_ not in verified_elsewhere or rk_ not in prog.funcs or not prog.funcs[rk_]['blocks']:
                        continue
                    listed_.add(rk_)
                    dep_of[rk_] = shown_key
                    nm_, o_ = verified_elsewhere[rk_]
                    keys.append((nm_, o_) if o_ else nm_)
            # vacuity guards: preconditions satisfiable, exit reachable
            s = z3.Solver()
            for h in V.global_hyps:
                s.add(h)
            for (h, b) in V.hyps[:V.pre_hyps]:
                s.add(h)
            tasks.append((key, _Pseudo(key + '#vacuity.requires_satisfiable', 'vacuity'), s.to_smt2(), 'cover'))
            s2 = z3.Solver()
            for h in V.global_hyps:
                s2.add(h)
            for (h, b) in V.hyps:
                s2.add(h)
            s2.add(V.exit_reach)
            tasks.append((key, _Pseudo(key + '#vacuity.exit_reachable', 'vacuity'), s2.to_smt2(), 'cover'))
        # lemmas of the packages involved
        for lp in P.get('lemma_files', []):
            world = World(prog)
            try:
                for (name, smt) in gen_lemmas(world, contracts, externals.EXT, lp):
                    tasks.append((lp, _Pseudo(name, 'lemma'), smt, 'obl'))
            except Exception as e:
                results.append({'name': 'lemmas:%s#generable' % lp, 'verdict': 'out_of_subset', 'reason': str(e), 'time': 0})
        # special analyses
        for sp in P.get('special', []):
            mod = importlib.import_module('govc.special_' + sp)
            for tup in mod.generate(prog, contracts, P, tier, results, funcs_report):
                name, smt, text = tup[:3]
                ps = _Pseudo(name, 'special', text)
                ps.meta = tup[3] if len(tup) > 3 else None
                ps.special = sp
                tasks.append((sp, ps, smt, 'obl'))
    order = ('z3-5.1', 'z3-4.8', 'cvc5')
    futs = []
    for (key, ob, smt, mode) in tasks:
        if mode == 'point':
            futs.append(pool.submit(solve_point, smt))
        elif mode == 'cover':
            futs.append(pool.submit(solve_text, smt, min(timeout, 5), CACHE, ob.name, ('z3-5.1',), None))
        elif getattr(ob, 'kind', '') == 'lemma':
            # pure (often non-linear) arithmetic: E-matching has nothing to match on, go to the full solvers at once
            futs.append(pool.submit(solve_text, smt, timeout, CACHE, ob.name, order, 1))
        else:
            futs.append(pool.submit(solve_text, smt, timeout, CACHE, ob.name, order, min(timeout, 15)))
    covers_ok = 0
    for (key, ob, smt, mode), fu in zip(tasks, futs):
        r = fu.result()
        r.update({'name': ob.name, 'func': key, 'kind': ob.kind, 'pos': getattr(ob, 'pos', ''), 'text': getattr(ob, 'text', ''), 'size': len(smt), 'mode': mode,
                  'meta': getattr(ob, 'meta', None), 'special': getattr(ob, 'special', None)})
        if mode == 'point' and r['verdict'] == 'unsat' and getattr(ob, 'before', None):
            if solve_point(ob.before)['verdict'] == 'unsat':
                r['verdict'] = 'unknown'      # the caller's own values exclude this case: legitimate
        if mode in ('cover', 'point'):
            if r['verdict'] == 'unsat':
                r['verdict'] = 'vacuous'
                results.append(r)
            else:
                covers_ok += 1
            continue
        results.append(r)
    # ---------------------------------------------------------------- classify
    findings, fixed = parse_known(os.path.join(VERIF, 'known_findings.txt'))
    claimed = [r for r in results]
    n_obl = len(claimed)
    n_dis = 0
    matched_known = []
    for r in claimed:
        if r['verdict'] == 'unsat':
            n_dis += 1
            continue
        kf = [f for f in findings if f.get('property') == pid and f.get('obligation') == r['name']]
        if kf:
            known_lines.append('KNOWN-FINDING: property=%s %s %s' % (pid, r['name'], kf[0].get('what', '')))
            matched_known.append(r['name'])
            continue
        payload = {'property': pid, 'obligation': r['name'], 'verdict': r['verdict'], 'clause': r.get('text'), 'pos': r.get('pos'),
                   'solver_details': r.get('details'), 'reason': r.get('reason'), 'model': r.get('model'), 'smt2': r.get('path')}
        suffix = ' no-failing-input-found'
        if r.get('special') and prog is not None:
            try:
                mod = importlib.import_module('govc.special_' + r['special'])
                if hasattr(mod, 'replay') and mod.replay(prog, r, payload, REPO, VERIF):
                    suffix = ''
            except Exception as e:
                payload['replay_error'] = str(e)
        elif r['verdict'] == 'sat' and r.get('model') and prog is not None:
            try:
                from .replay import try_replay
                rep = try_replay(prog, r, payload, REPO, VERIF)
                if rep:
                    suffix = ''
            except Exception as e:
                payload['replay_error'] = str(e)
        p = write_replay(r['name'], payload)
        violations.append((r['name'], p, suffix))
    # ---------------------------------------------------------------- thorough: the property's must-fail corpus
    selftest_res = None
    if tier == 'thorough' and not os.environ.get('GOVC_NO_SELFTEST') and not violations:
        try:
            from . import selftest
            selftest_res = selftest.run(pid, parallel=2)
            for sr in selftest_res:
                if not sr['status'].startswith('detected') and sr['status'] != 'stale':
                    known_lines.append('SELFTEST-MISS: property=%s %s (%s) is not detected by the quick check' % (pid, sr['name'], sr['kind']))
        except Exception as e:
            selftest_res = [{'status': 'error', 'detail': str(e)}]
    wall = time.time() - t_start
    by_backend = {}
    for r in results:
        if r.get('solver'):
            b = by_backend.setdefault(r['solver'], {'discharged': 0, 'seconds': 0.0})
            if r['verdict'] == 'unsat':
                b['discharged'] += 1
            b['seconds'] = round(b['seconds'] + r.get('time', 0), 3)
    slow = sorted([r for r in results if 'time' in r], key=lambda r: -r.get('time', 0))[:5]
    samples = [{'obligation': r['name'], 'clause': r.get('text', ''), 'smt_bytes': r.get('size'), 'verdict': r['verdict'], 'solver': r.get('solver'), 'seconds': r.get('time')}
               for r in results[:3] + results[len(results) // 2:len(results) // 2 + 2]]
    level = P['level']
    ev = {
        'property_id': pid, 'tier': tier, 'seed': seed, 'level': level,
        'coverage': {
            # the proof-level claim is about the obligations that are not listed known findings; the listed ones fail
            # on the unchanged tree by definition and are reported separately (never counted as discharged)
            'obligations': n_obl - len(matched_known), 'discharged': n_dis,
            'obligations_failing_as_listed_known_findings': len(matched_known),
            'checker_cmd': 'cd /verif && ./check %s %s' % (pid, tier),
            'trusted_base': sorted(set(P.get('trusted_base', [])) | {'external: ' + k for k in sorted(externals.USED)}),
            'explanation': P.get('explanation', ''),
            'functions_under_contract': funcs_report,
            'by_backend': by_backend,
            'slowest': [{'obligation': r['name'], 'seconds': r.get('time')} for r in slow],
            'samples': samples,
            'vacuity_covers_passed': covers_ok,
            'not_decided': P.get('not_decided', []),
            'known_findings_matched': matched_known,
            'must_fail_corpus': selftest_res if selftest_res is not None else 'run in the thorough tier (tools/selftest.sh); last full run: /verif/selftest/RESULTS.md',
            'obligations_outside_this_property_not_checked': outside if prog is not None and contracts is not None else [],
            'undischarged': [{'obligation': r['name'], 'verdict': r['verdict'], 'reason': r.get('reason')} for r in results if r['verdict'] != 'unsat'],
            'vc_generation_seconds': round(gen_time, 2),
            'ir': 'go/ssa (x/tools v0.29.0, GlobalDebug) export of %s from %s' % (' '.join(P['packages']), REPO),
        },
        'assumptions': sorted(set(P.get('assumptions', [])) | notes),
        'wall_s': round(wall, 2),
        'violations': len(violations),
    }
    with open(evidence_path, 'w') as f:
        json.dump(ev, f, indent=1, default=str)
    for ln in known_lines:
        print(ln)
    print('%s %s: %d obligations, %d discharged, %d known findings, %d violations, %.1fs' % (pid, tier, n_obl, n_dis, len(matched_known), len(violations), wall))
    for (name, p, suffix) in violations:
        print('  undischarged: %s' % name)
    for (name, p, suffix) in violations:
        print('VIOLATION property=%s replay=%s%s' % (pid, p, suffix))
    return 1 if violations else 0


def solve_point(smt2):
    """refutation attempt of a set of hypotheses (E-matching only, 3 s): `unsat` means the program point is
    vacuous; anything else means no inconsistency was found"""
    from .verify import run_inprocess
    res, dt, _ = run_inprocess(smt2, 3, ematch_only=True)
    return {'verdict': res, 'solver': 'z3-5.1', 'time': round(dt, 3), 'details': {'z3-5.1/ematch': (res, round(dt, 3))}, 'path': None, 'model': None}


class _Pseudo:
    def __init__(self, name, kind, text=''):
        self.name = name
        self.kind = kind
        self.text = text
        self.pos = ''


if __name__ == '__main__':
    sys.exit(main(sys.argv[1:]))
