"""Semantics of individual go/ssa instructions."""
import re
import z3
from .world import OutOfSubset, LValue, FuncVal
from .symex import load_lvalue, store_lvalue, well_typed

I = z3.IntSort()


def go_div(x, y):
    return z3.If(y > 0, z3.If(x >= 0, x / y, -((-x) / y)), z3.If(x >= 0, -(x / (-y)), (-x) / (-y)))


def exec_instr(X, ins):
    op = ins['op']
    f = HANDLERS.get(op)
    if f is None:
        raise OutOfSubset('instruction %s in %s' % (op, X.fnkey))
    f(X, ins)


def setv(X, ins, v):
    X.env[ins['name']] = v


def h_alloc(X, ins):
    w = X.w
    el = w.prog.types[ins['type']]['elem']
    uk, e = w.prog.under(el)
    if e['kind'] == 'struct':
        r = X.alloc_obj(el)
        setv(X, ins, r)
        # stack locals (go/ssa: Alloc with Heap == false) are not observable by the caller
        st = X.V.__dict__.setdefault('alloc_kinds', {})
        st.setdefault(el, set()).add(bool(ins.get('heap')))
    elif e['kind'] == 'array':
        # backing array: pointer-to-array is the array id
        a = X.alloc_id('arr')
        key = ('el', e['elem'])
        E = X.heap.get(key)
        X.heap.set(key, z3.Store(E, a, z3.K(I, w.zero(e['elem']))))
        setv(X, ins, a)
    else:
        r = X.alloc_id('cell:' + el)
        key = ('cell', el)
        X.heap.set(key, z3.Store(X.heap.get(key), r, w.zero(el)))
        setv(X, ins, LValue('cell', (el, r), el))
        X.localcells.add(r.get_id())


def arith_uf(X, name, x, y):
    f = X.w.uf('bits_' + name, I, I, I)
    return f(x, y)


def h_binop(X, ins):
    w = X.w
    tok = ins['tok']
    xo, yo = ins['x'], ins['y']
    xv, yv = X.val(xo), X.val(yo)
    tx = xo['type']
    if tok in ('==', '!='):
        # function values / lvalues compared with nil
        if isinstance(xv, (FuncVal, LValue)) or isinstance(yv, (FuncVal, LValue)):
            other = yv if isinstance(xv, (FuncVal, LValue)) else xv
            if z3.is_expr(other) or other is None:
                r = z3.BoolVal(False)   # an address / function literal is never nil
                setv(X, ins, r if tok == '==' else z3.BoolVal(True))
                return
            raise OutOfSubset('comparison of addresses')
        k = w.prog.kind(tx)
        if k == 'slice':
            # only comparison with nil is legal
            s = xv if not (yo['k'] == 'const') else xv
            other = yv
            if xo['k'] == 'const':
                s = yv
            r = w.Slice.arr(s) == 0
        elif k == 'iface' and w.prog.kind(yo['type']) == 'iface':
            r = xv == yv
        else:
            r = xv == yv
        setv(X, ins, r if tok == '==' else z3.Not(r))
        return
    x, y = X.term(xo), X.term(yo)
    if w.is_string(tx):
        if tok == '+':
            setv(X, ins, w.uf('str_cat', w.Str, w.Str, w.Str)(x, y))
            return
        lt = w.uf('str_lt', w.Str, w.Str, z3.BoolSort())
        r = {'<': lt(x, y), '>': lt(y, x), '<=': z3.Not(lt(y, x)), '>=': z3.Not(lt(x, y))}.get(tok)
        if r is None:
            raise OutOfSubset('string op ' + tok)
        X.V.notes.append('string order is an uninterpreted strict total order')
        setv(X, ins, r)
        return
    if tok in ('<', '<=', '>', '>='):
        r = {'<': x < y, '<=': x <= y, '>': x > y, '>=': x >= y}[tok]
        setv(X, ins, r)
        return
    isf = w.is_float(ins['type'])
    if tok == '+':
        r = x + y
    elif tok == '-':
        r = x - y
    elif tok == '*':
        r = x * y
    elif tok == '/':
        if isf:
            r = w.fdiv(x, y)
        else:
            X.oblige('div0', y != 0, ins['pos'])
            r = go_div(x, y)
    elif tok == '%':
        X.oblige('div0', y != 0, ins['pos'])
        r = x - y * go_div(x, y)
    elif tok in ('&', '|', '^', '&^', '<<', '>>'):
        if tok == '<<' and z3.is_int_value(y):
            r = x * (2 ** y.as_long())
        elif tok == '>>' and z3.is_int_value(y):
            r = x / (2 ** y.as_long())
        else:
            nm = {'&': 'and', '|': 'or', '^': 'xor', '&^': 'andnot', '<<': 'shl', '>>': 'shr'}[tok]
            r0 = arith_uf(X, nm, x, y)
            r = X.w.fresh('bits', I)
            X.hyp(r == r0)
            if tok == '&':
                X.hyp(z3.Implies(z3.And(x >= 0, y >= 0), z3.And(r >= 0, r <= x, r <= y)))
            if w.is_unsigned(ins['type']):
                X.hyp(r >= 0)
    else:
        raise OutOfSubset('binop ' + tok)
    if w.is_unsigned(ins['type']) and tok == '-':
        X.V.notes.append('unsigned subtraction treated as mathematical (no wrap-around)')
    setv(X, ins, r)


def h_unop(X, ins):
    w = X.w
    tok = ins['tok']
    if tok == '*':
        lv = X.ptr_lvalue(ins['x'])
        if isinstance(lv, tuple):       # ('obj', sname, ref): load of a whole struct
            _, sname, ref = lv
            X.nonnil(ref, ins['pos'])
            setv(X, ins, X.load_obj(sname, ref))
            return
        nil_check_lv(X, lv, ins['pos'])
        v = load_lvalue(X.V, X.heap, lv)
        setv(X, ins, v)
        X.assume_typed(v, ins['type'])
        return
    x = X.term(ins['x'])
    if tok == '!':
        setv(X, ins, z3.Not(x))
    elif tok == '-':
        setv(X, ins, -x)
    elif tok == '^':
        setv(X, ins, w.uf('bits_not', I, I)(x))
    elif tok == '<-':
        from .chans import recv
        recv(X, ins)
    else:
        raise OutOfSubset('unop ' + tok)


def nil_check_lv(X, lv, pos):
    if lv.kind == 'cell':
        ref = lv.data[1]
        if not X.is_local_cell(ref):
            X.nonnil(ref, pos)
    # fld / idx lvalues were checked when formed; globals are never nil


def h_store(X, ins):
    lv = X.ptr_lvalue(ins['addr'])
    v = X.val(ins['val'])
    if isinstance(v, FuncVal):
        v = z3.IntVal(0) if v.key is None else X.w.fresh('funcval', I)
    if isinstance(v, (LValue, tuple, list)):
        raise OutOfSubset('storing an address in ' + X.fnkey)
    if isinstance(lv, tuple):
        _, sname, ref = lv
        X.nonnil(ref, ins['pos'])
        X.store_obj(sname, ref, v)
        return
    nil_check_lv(X, lv, ins['pos'])
    ownership_check(X, lv, ins)
    store_clauses(X, lv, v, ins)
    store_lvalue(X.V, X.heap, lv, v)


def store_clauses(X, lv, v, ins):
    """`store T.f [label] expr` clauses of the function under verification: checked at every direct store to field f
    of a T object, with target / newval / oldval bound to the object, the stored value and the value being overwritten"""
    c = X.contract if X.top else None
    if c is None or not c.get('stores'):
        return
    from .speceval import SpecEval, SV, SpecError, resolve_type
    if lv.kind in ('cell', 'idx'):
        # store cell(p) / store elems(s): every store through the pointer p / into the backing array of the slice s
        # (newval = the value stored); the store may or may not hit that location, the clause is asked under the
        # condition that it does
        for (target, lab, ast, txt) in c['stores']:
            m_ = re.match(r'^(cell|elems)\((\w+)\)$', target)
            if not m_ or (m_.group(1) == 'cell') != (lv.kind == 'cell'):
                continue
            names = X.resolve_names(X.block, upto_idx=X.cur_idx)
            env = X.spec_env(names)
            if m_.group(2) not in env:
                continue
            tv = env[m_.group(2)]
            if lv.kind == 'cell':
                ty_, ref_ = lv.data
                uk_, e_ = X.w.prog.under(tv.ty) if isinstance(tv, SV) else (None, {})
                if e_.get('kind') != 'ptr' or e_.get('elem') != ty_:
                    continue
                hit = ref_ == tv.t
            else:
                el_, s_, i_ = lv.data
                uk_, e_ = X.w.prog.under(tv.ty) if isinstance(tv, SV) else (None, {})
                if e_.get('kind') != 'slice' or e_.get('elem') != el_:
                    continue
                hit = X.w.Slice.arr(s_) == X.w.Slice.arr(tv.t)
            env['newval'] = SV(v, lv.data[0]) if z3.is_expr(v) else tv
            ev = SpecEval(X.V, X.pkg, env, X.heap, old=X.top_entry_heap())
            key = ('store:' + target, lab)
            X.V.call_clause_seen = getattr(X.V, 'call_clause_seen', {})
            X.V.call_clause_seen.setdefault(key, 0)
            try:
                X.oblige('store', z3.Implies(hit, ev.boolean(ast)), ins.get('pos', ''), label='%s.%s' % (target, lab or '0'), text=txt)
                X.V.call_clause_seen[key] += 1
            except SpecError as e:
                if 'unknown identifier' not in str(e):
                    raise OutOfSubset('store clause for %s in %s: %s' % (target, X.fnkey, e))
        return
    if lv.kind != 'fld':
        return
    sname, ref, fname = lv.data
    for (target, lab, ast, txt) in c['stores']:
        if '(' in target:
            continue
        tn, fn_ = target.rsplit('.', 1)
        try:
            ty = resolve_type(X.w, tn, X.pkg)
        except SpecError:
            continue
        if ty != sname or fn_ != fname:
            continue
        names = X.resolve_names(X.block, upto_idx=X.cur_idx)
        env = X.spec_env(names)
        fty = [f['type'] for f in X.w.struct_fields(sname) if f['name'] == fname][0]
        env['target'] = SV(ref, '*' + sname)
        env['newval'] = SV(v, fty)
        env['oldval'] = SV(load_lvalue(X.V, X.heap, lv), fty)
        ev = SpecEval(X.V, X.pkg, env, X.heap, old=X.top_entry_heap())
        key = ('store:' + target, lab)
        X.V.call_clause_seen = getattr(X.V, 'call_clause_seen', {})
        X.V.call_clause_seen.setdefault(key, 0)
        try:
            X.oblige('store', ev.boolean(ast), ins.get('pos', ''), label='%s.%s' % (target, lab or '0'), text=txt)
            X.V.call_clause_seen[key] += 1
        except SpecError as e:
            if 'unknown identifier' not in str(e):
                raise OutOfSubset('store clause for %s in %s: %s' % (target, X.fnkey, e))


def ownership_check(X, lv, ins):
    """worker closures (flag worker): a store must not hit a variable captured from the enclosing function,
    unless it happens while a mutex is held or the variable is declared `guarded` (atomic / single writer)"""
    c = X.V.contracts['funcs'].get(X.V.fnkey)
    if c is None or 'worker' not in c['flags']:
        return
    top = X.w.prog.funcs[X.V.fnkey]
    held = X.heap.get(('ghost', 'lock_Lock', I)) - X.heap.get(('ghost', 'lock_Unlock', I)) > X.V.entry_lock_depth
    guarded = set(c.get('guarded', []))
    if lv.kind == 'fld':
        # store into a field of an object: the object must not be one a captured variable points to
        sname, ref, fname = lv.data
        for fv in top['freevars']:
            uk, e = X.w.prog.under(fv['type'])
            if e['kind'] != 'ptr' or fv['name'] in guarded:
                continue
            sp = X.w.prog.struct_of_ptr(e['elem'])
            if sp is None or sp[0] != sname:
                continue
            p = z3.Const('p_' + fv['name'], I)
            shared = X.heap.get(('cell', e['elem']))[p]
            X.oblige('ownership', z3.Or(held, ref != shared), ins.get('pos', ''), label='shared_object.%s.%s' % (fv['name'], fname),
                     text='worker writes field %s of the object the captured variable %s points to without holding a lock' % (fname, fv['name']))
        return
    if lv.kind != 'cell':
        return
    ty, ref = lv.data
    if X.is_local_cell(ref):
        return
    for fv in top['freevars']:
        uk, e = X.w.prog.under(fv['type'])
        if e['kind'] != 'ptr' or e['elem'] != ty or fv['name'] in guarded:
            continue
        p = z3.Const('p_' + fv['name'], I)
        X.oblige('ownership', z3.Or(held, ref != p), ins.get('pos', ''), label='captured.' + fv['name'],
                 text='worker writes the captured variable %s of the enclosing function without holding a lock' % fv['name'])


def h_fieldaddr(X, ins):
    w = X.w
    xo = ins['x']
    base = X.val(xo)
    uk, e = w.prog.under(xo['type'])
    sname = e['elem']
    fields = w.struct_fields(sname)
    f = fields[ins['field']]
    if isinstance(base, LValue):
        # address of a field inside a by-value struct stored somewhere
        setv(X, ins, LValue(base.kind, base.data, f['type'], base.path + (f['name'],)))
        return
    X.nonnil(base, ins['pos'])
    setv(X, ins, LValue('fld', (sname, base, f['name']), f['type']))


def h_field(X, ins):
    w = X.w
    xo = ins['x']
    v = X.term(xo)
    setv(X, ins, w.struct_get(xo['type'], v, ins['field']))


def h_indexaddr(X, ins):
    w = X.w
    xo = ins['x']
    i = X.term(ins['index'])
    uk, e = w.prog.under(xo['type'])
    S = w.Slice
    if e['kind'] == 'slice':
        s = X.term(xo)
        X.oblige('bounds', z3.And(i >= 0, i < S.len(s)), ins['pos'])
        setv(X, ins, LValue('idx', (e['elem'], s, i), e['elem']))
        return
    if e['kind'] == 'ptr':
        ak, ae = w.prog.under(e['elem'])
        if ae['kind'] == 'array':
            a = X.term(xo)
            n = ae['len']
            X.oblige('bounds', z3.And(i >= 0, i < n), ins['pos'])
            s = S.mk_slice(a, 0, n, n)
            setv(X, ins, LValue('idx', (ae['elem'], s, i), ae['elem']))
            return
    raise OutOfSubset('IndexAddr on ' + xo['type'])


def h_index(X, ins):
    w = X.w
    xo = ins['x']
    i = X.term(ins['index'])
    x = X.term(xo)
    uk, e = w.prog.under(xo['type'])
    if e['kind'] == 'basic':   # string
        X.oblige('bounds', z3.And(i >= 0, i < w.strlen(x)), ins['pos'])
        r = w.uf('str_at', w.Str, I, I)(x, i)
        X.hyp(z3.And(r >= 0, r <= 255))
        setv(X, ins, r)
        return
    if e['kind'] == 'array':
        X.oblige('bounds', z3.And(i >= 0, i < e['len']), ins['pos'])
        setv(X, ins, x[i])
        return
    raise OutOfSubset('Index on ' + xo['type'])


def h_slice(X, ins):
    w = X.w
    S = w.Slice
    xo = ins['x']
    uk, e = w.prog.under(xo['type'])
    lo = X.term(ins['low']) if ins['low'] else z3.IntVal(0)
    if e['kind'] == 'basic':   # string slicing
        s = X.term(xo)
        hi = X.term(ins['high']) if ins['high'] else w.strlen(s)
        X.oblige('bounds', z3.And(0 <= lo, lo <= hi, hi <= w.strlen(s)), ins['pos'])
        r = w.uf('str_sub', w.Str, I, I, w.Str)(s, lo, hi)
        X.hyp(w.strlen(r) == hi - lo)
        setv(X, ins, r)
        return
    if e['kind'] == 'slice':
        s = X.term(xo)
        hi = X.term(ins['high']) if ins['high'] else S.len(s)
        mx = X.term(ins['max']) if ins['max'] else S.cap(s)
        X.oblige('bounds', z3.And(0 <= lo, lo <= hi, hi <= mx, mx <= S.cap(s)), ins['pos'])
        setv(X, ins, S.mk_slice(S.arr(s), S.off(s) + lo, hi - lo, mx - lo))
        return
    if e['kind'] == 'ptr':
        ak, ae = w.prog.under(e['elem'])
        if ae['kind'] == 'array':
            a = X.term(xo)
            n = z3.IntVal(ae['len'])
            hi = X.term(ins['high']) if ins['high'] else n
            X.oblige('bounds', z3.And(0 <= lo, lo <= hi, hi <= n), ins['pos'])
            setv(X, ins, S.mk_slice(a, lo, hi - lo, n - lo))
            return
    raise OutOfSubset('Slice on ' + xo['type'])


def h_makeslice(X, ins):
    w = X.w
    S = w.Slice
    n = X.term(ins['len'])
    c = X.term(ins['cap']) if ins['cap'] else n
    X.oblige('bounds', z3.And(n >= 0, n <= c), ins['pos'], text='make size')
    uk, e = w.prog.under(ins['type'])
    a = X.alloc_id('arr')
    key = ('el', e['elem'])
    E = X.heap.get(key)
    X.heap.set(key, z3.Store(E, a, z3.K(I, w.zero(e['elem']))))
    setv(X, ins, S.mk_slice(a, 0, n, c))
    from .ir import nonescaping_slices
    if ins.get('name') in nonescaping_slices(X.fn):
        # a local array no callee can name (never passed, stored, returned or captured): outside every callee's frame
        X.V.private_arrays = getattr(X.V, 'private_arrays', [])
        X.V.private_arrays.append((key, a))


def h_makemap(X, ins):
    w = X.w
    mt = ins['type']
    uk, e = w.prog.under(mt)
    m = X.alloc_id('map')
    ks = w.sort(e['key'])
    for k, v in (('mdom', z3.K(ks, z3.BoolVal(False))), ('msize', z3.IntVal(0))):
        key = (k, mt)
        X.heap.set(key, z3.Store(X.heap.get(key), m, v))
    setv(X, ins, m)


def map_type_key(X, tk):
    return tk


def h_mapupdate(X, ins):
    w = X.w
    mo = ins['map']
    mt = mo['type']
    m = X.term(mo)
    k = X.term(ins['key'])
    v = X.val(ins['value'])
    if isinstance(v, FuncVal):
        v = X.w.fresh('funcval', I)
    X.nonnil(m, ins['pos'], 'assignment to entry in nil map')
    dom = X.heap.get(('mdom', mt))
    val = X.heap.get(('mval', mt))
    size = X.heap.get(('msize', mt))
    X.heap.set(('msize', mt), z3.Store(size, m, size[m] + z3.If(dom[m][k], 0, 1)))
    X.heap.set(('mdom', mt), z3.Store(dom, m, z3.Store(dom[m], k, z3.BoolVal(True))))
    X.heap.set(('mval', mt), z3.Store(val, m, z3.Store(val[m], k, v)))


def h_lookup(X, ins):
    w = X.w
    xo = ins['x']
    uk, e = w.prog.under(xo['type'])
    if e['kind'] == 'basic':   # string index (byte)
        s = X.term(xo)
        i = X.term(ins['index'])
        X.oblige('bounds', z3.And(i >= 0, i < w.strlen(s)), ins['pos'])
        setv(X, ins, w.uf('str_at', w.Str, I, I)(s, i))
        return
    mt = xo['type']
    m = X.term(xo)
    k = X.term(ins['index'])
    dom = X.heap.get(('mdom', mt))
    val = X.heap.get(('mval', mt))
    present = z3.And(m != 0, dom[m][k])
    v = z3.If(present, val[m][k], w.zero(e['elem']))
    r = X.w.fresh('lookup', w.sort(e['elem']))
    X.hyp(r == v)
    X.assume_typed(r, e['elem'])
    if ins['commaok']:
        setv(X, ins, [r, present])
    else:
        setv(X, ins, r)


def h_extract(X, ins):
    t = X.val(ins['x'])
    if not isinstance(t, (list, tuple)):
        raise OutOfSubset('extract from non-tuple')
    setv(X, ins, t[ins['index']])


def h_convert(X, ins):
    w = X.w
    xo = ins['x']
    src, dst = xo['type'], ins['type']
    x = X.term(xo)
    if w.is_int(src) and w.is_int(dst):
        if w.is_unsigned(dst) and not w.is_unsigned(src):
            X.V.notes.append('signed->unsigned conversion treated as identity (A-INT)')
        setv(X, ins, x)
        return
    if w.is_int(src) and w.is_float(dst):
        setv(X, ins, z3.ToReal(x))
        return
    if w.is_float(src) and w.is_float(dst):
        setv(X, ins, x)
        return
    if w.is_float(src) and w.is_int(dst):
        setv(X, ins, z3.If(x >= 0, z3.ToInt(x), -z3.ToInt(-x)))
        return
    if w.is_string(src) and w.is_string(dst):
        setv(X, ins, x)
        return
    dk = w.prog.kind(dst)
    sk = w.prog.kind(src)
    if w.is_int(src) and w.is_string(dst):
        r = w.uf('str_of_rune', I, w.Str)(x)
        setv(X, ins, r)
        return
    if w.is_string(src) and dk == 'slice':
        # []byte(s) / []rune(s): abstract fresh slice
        S = w.Slice
        a = X.alloc_id('arr')
        el = w.prog.under(dst)[1]['elem']
        n = X.w.fresh('convlen', I)
        X.hyp(z3.And(n >= 0, n <= w.strlen(x), (n == 0) == (w.strlen(x) == 0)))
        if w.prog.under(el)[1]['name'] in ('uint8', 'byte'):
            X.hyp(n == w.strlen(x))
        # contents unknown: havoc the fresh array
        key = ('el', el)
        E = X.heap.get(key)
        X.heap.set(key, z3.Store(E, a, X.w.fresh('convarr', z3.ArraySort(I, w.sort(el)))))
        setv(X, ins, S.mk_slice(a, 0, n, n))
        return
    if sk == 'slice' and w.is_string(dst):
        S = w.Slice
        el = w.prog.under(src)[1]['elem']
        r = X.w.fresh('strconv', w.Str)
        if w.prog.under(el)[1]['name'] in ('uint8', 'byte'):
            X.hyp(w.strlen(r) == S.len(x))
        else:
            X.hyp(z3.And(w.strlen(r) >= S.len(x)))
        setv(X, ins, r)
        return
    if sk == dk and sk in ('ptr', 'slice', 'map', 'chan', 'func'):
        setv(X, ins, x)
        return
    raise OutOfSubset('convert %s -> %s' % (src, dst))


def h_changetype(X, ins):
    setv(X, ins, X.val(ins['x']))


def h_makeinterface(X, ins):
    w = X.w
    xo = ins['x']
    v = X.val(xo)
    tk = xo['type']
    tag = w.tag(tk)
    kind = w.prog.kind(tk)
    If = w.Iface
    if isinstance(v, FuncVal) or isinstance(v, LValue):
        setv(X, ins, If.mk_iface(tag, X.w.fresh('box', I)))
        return
    if kind in ('ptr', 'map', 'chan') or (kind == 'basic' and w.is_int(tk)):
        setv(X, ins, If.mk_iface(tag, v))
        return
    # boxed value: injective box function per type
    so = w.sort(tk)
    box = w.uf('box_%d' % tag, so, I)
    unbox = w.uf('unbox_%d' % tag, I, so)
    b = box(v)
    X.hyp(unbox(b) == v)
    setv(X, ins, If.mk_iface(tag, b))


def h_changeinterface(X, ins):
    setv(X, ins, X.term(ins['x']))


def h_typeassert(X, ins):
    w = X.w
    If = w.Iface
    x = X.term(ins['x'])
    at = ins['asserted']
    kind = w.prog.kind(at)
    if kind == 'iface':
        if ins['commaok']:
            ok = X.w.fresh('taok', z3.BoolSort())
            X.hyp(z3.Implies(ok, x != w.nil_iface()))
            setv(X, ins, [z3.If(ok, x, w.nil_iface()), ok])
        else:
            X.oblige('typeassert', x != w.nil_iface(), ins['pos'])
            setv(X, ins, x)
        return
    tag = w.tag(at)
    ok = If.tag(x) == tag
    if kind in ('ptr', 'map', 'chan') or (kind == 'basic' and w.is_int(at)):
        v = If.ref(x)
    else:
        v = w.uf('unbox_%d' % tag, I, w.sort(at))(If.ref(x))
    if ins['commaok']:
        setv(X, ins, [z3.If(ok, v, w.zero(at)), ok])
    else:
        X.oblige('typeassert', ok, ins['pos'], text='x.(%s)' % at)
        setv(X, ins, v)
        X.assume_typed(v, at)


def h_makeclosure(X, ins):
    binds = [X.val(b) for b in ins['bindings']]
    setv(X, ins, FuncVal(ins['fn'], binds))


def h_panic(X, ins):
    X.oblige('nopanic', z3.BoolVal(False), ins['pos'], text='explicit panic reachable')
    X.dead = True


def h_defer(X, ins):
    X.defers.append((X.block, ins))


def h_rundefers(X, ins):
    from .calls import do_call
    for (b, d) in reversed(X.defers):
        if b != X.block and b not in X.cfg['dom'][X.block]:
            if b not in X.cfg['anc'].get(X.block, ()):
                continue      # that defer statement is not executed on any path reaching this return
            # a defer statement that is executed on some of the paths reaching this return only: the deferred call may
            # or may not run.  Over-approximated: everything it may write is havocked, nothing it ensures is assumed,
            # its precondition is not checked (stated in the evidence notes)
            from .modset import call_modset
            dd0 = dict(d)
            dd0['op'] = 'Call'
            for key in sorted(call_modset(X.V, X.fn, dd0, [X.fnkey]), key=str):
                nv = X.V.fresh_heap_const(key, X.tag + 'cdefer')
                if key[0] == 'alloc':
                    X.hyp(nv >= X.heap.get(key))
                X.heap.set(key, nv)
            X.V.notes.append('a conditional defer is over-approximated at function exit: its writes are havocked, its contract is neither checked nor assumed')
            continue
        dd = dict(d)
        dd['op'] = 'Call'
        dd['name'] = '_defer'
        dd['type'] = '()'
        do_call(X, dd)


def h_call(X, ins):
    from .calls import do_call
    do_call(X, ins)


def h_range(X, ins):
    from .chans import do_range
    do_range(X, ins)


def h_next(X, ins):
    from .chans import do_next
    do_next(X, ins)


def h_go(X, ins):
    from .chans import do_go
    do_go(X, ins)


def h_send(X, ins):
    from .chans import do_send
    do_send(X, ins)


def h_makechan(X, ins):
    from .chans import do_makechan
    do_makechan(X, ins)


HANDLERS = {
    'Alloc': h_alloc, 'BinOp': h_binop, 'UnOp': h_unop, 'Store': h_store, 'FieldAddr': h_fieldaddr,
    'Field': h_field, 'IndexAddr': h_indexaddr, 'Index': h_index, 'Slice': h_slice, 'MakeSlice': h_makeslice,
    'MakeMap': h_makemap, 'MapUpdate': h_mapupdate, 'Lookup': h_lookup, 'Extract': h_extract,
    'Convert': h_convert, 'ChangeType': h_changetype, 'MakeInterface': h_makeinterface,
    'ChangeInterface': h_changeinterface, 'TypeAssert': h_typeassert, 'MakeClosure': h_makeclosure,
    'Panic': h_panic, 'Defer': h_defer, 'RunDefers': h_rundefers, 'Call': h_call,
    'Range': h_range, 'Next': h_next, 'Go': h_go, 'Send': h_send, 'MakeChan': h_makechan,
}
