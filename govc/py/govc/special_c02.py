"""C02 at the level of the consumers of the multi-tree reader: a structural obligation, regenerated from the SSA of the
current tree, for every function of the listed packages that receives a tree.Trees record from a channel.

io/utils.ReadMultiTrees delivers one record per tree of the input; for input that cannot be read the record carries the
reader's error and *no tree* (Tree == nil).  "Reading ... either reports an error or delivers trees; it never panics"
therefore needs every consumer to look at Err before it touches Tree.  One obligation

    <func>#reader_error_is_checked_before_the_tree_is_used

per consuming function is discharged exactly when every access to the Tree field of a record received from a channel
(and every closure capturing the record) sits in code that can only be reached through the `Err == nil` side of a test
of that same record's Err field (dominance in the control-flow graph).  This is a sufficient condition, chosen because
it is the idiom of all consumers in the repository; a consumer that is safe for another reason would need a contract
instead (none exists today)."""
import re
from .symex import cfg_of

RECORD = 'tree.Trees'


def _fields(prog):
    uk, e = prog.under(RECORD)
    names = [f['name'] for f in e['fields']]
    return names.index('Tree'), names.index('Err')


def scan(prog, key, fn, tree_i, err_i):
    """returns (n_received, bad_uses, n_uses) for one function"""
    defs = {x['name']: (bi, x) for bi, b in enumerate(fn['blocks']) for x in b['instrs'] if x.get('name')}
    # records received from a channel: registers holding the record, and local cells it is stored into
    recv_regs = set()
    for bi, b in enumerate(fn['blocks']):
        for x in b['instrs']:
            if x['op'] == 'UnOp' and x.get('tok') == '<-':
                if x.get('commaok'):
                    for y in (y for bb in fn['blocks'] for y in bb['instrs']):
                        if y['op'] == 'Extract' and y['x'].get('name') == x['name'] and y.get('index') == 0 and y.get('type') == RECORD:
                            recv_regs.add(y['name'])
                elif x.get('type') == RECORD:
                    recv_regs.add(x['name'])
    if not recv_regs:
        return 0, [], 0
    cells = set()
    for b in fn['blocks']:
        for x in b['instrs']:
            if x['op'] == 'Store' and x['val'].get('name') in recv_regs and x['addr'].get('k') == 'reg':
                cells.add(x['addr']['name'])
    holders = recv_regs | cells

    def field_of(v):
        """(holder, field index) when the value v is a field of a received record"""
        d = defs.get(v.get('name'))
        if d is None:
            return None
        x = d[1]
        if x['op'] == 'Field' and x['x'].get('name') in recv_regs:
            return (x['x']['name'], x['field'])
        if x['op'] == 'UnOp' and x.get('tok') == '*':
            d2 = defs.get(x['x'].get('name'))
            if d2 is not None and d2[1]['op'] == 'FieldAddr' and d2[1]['x'].get('name') in cells:
                return (d2[1]['x']['name'], d2[1]['field'])
        return None
    cfg = cfg_of(prog, key)
    preds = {}
    for bi, b in enumerate(fn['blocks']):
        for s in b['succs']:
            preds.setdefault(s, set()).add(bi)
    # the blocks entered only through the Err == nil side of a test of the record's Err field
    safe = {}      # holder -> set of blocks
    for bi, b in enumerate(fn['blocks']):
        last = b['instrs'][-1] if b['instrs'] else None
        if last is None or last['op'] != 'If':
            continue
        d = defs.get(last['cond'].get('name'))
        if d is None or d[1]['op'] != 'BinOp' or d[1].get('tok') not in ('!=', '=='):
            continue
        c = d[1]
        sides = [(c['x'], c['y']), (c['y'], c['x'])]
        for (u, v) in sides:
            if v.get('k') == 'const' and v.get('vk') == 'nil':
                fo = field_of(u)
                if fo is not None and fo[1] == err_i:
                    good = b['succs'][1] if c['tok'] == '!=' else b['succs'][0]
                    if preds.get(good, set()) == {bi}:
                        safe.setdefault(fo[0], set()).add(good)
    # a record copied from a register into a cell is the same record
    alias = {}
    for b in fn['blocks']:
        for x in b['instrs']:
            if x['op'] == 'Store' and x['val'].get('name') in recv_regs and x['addr'].get('name') in cells:
                alias.setdefault(x['addr']['name'], set()).add(x['val']['name'])
                alias.setdefault(x['val']['name'], set()).add(x['addr']['name'])

    def guarded(holder, bi):
        hs = {holder} | alias.get(holder, set())
        doms = cfg['dom'][bi]
        return any(g in doms for h in hs for g in safe.get(h, ()))
    bad, n = [], 0
    for bi, b in enumerate(fn['blocks']):
        for x in b['instrs']:
            use = None
            if x['op'] == 'Field' and x['x'].get('name') in recv_regs and x['field'] == tree_i:
                use = x['x']['name']
            elif x['op'] == 'FieldAddr' and x['x'].get('name') in cells and x['field'] == tree_i:
                use = x['x']['name']
            elif x['op'] == 'MakeClosure':
                for bnd in x.get('bindings', []):
                    if bnd.get('name') in holders:
                        use = bnd['name']
            elif x['op'] in ('Call', 'Go', 'Defer'):
                for a in x.get('args', []):
                    if a.get('name') in holders:
                        use = a['name']
            if use is not None:
                n += 1
                if not guarded(use, bi):
                    bad.append('%s (%s)' % (re.sub(r'^.*/(cmd|support|tree|io)/', r'\1/', x.get('pos', '') or '?'), x['op']))
    return len(recv_regs), bad, n


def generate(prog, contracts, P, tier, results, funcs_report):
    out = []
    tree_i, err_i = _fields(prog)
    rev = {}
    for nm_, fk_ in prog.aliases.items():
        rev.setdefault(fk_, nm_)
    total = 0
    for key in sorted(prog.funcs):
        fn = prog.funcs[key]
        if not fn['blocks']:
            continue
        bare = re.sub(r'^\(\*?', '', key)
        if not any(bare.startswith(pk + '.') for pk in P.get('consumer_packages', [])):
            continue
        nrecv, bad, n = scan(prog, key, fn, tree_i, err_i)
        if nrecv == 0 or n == 0:
            continue
        total += 1
        shown = rev.get(key, key)
        name = '%s#reader_error_is_checked_before_the_tree_is_used' % shown
        funcs_report.append({'function': shown, 'file': fn.get('pos', ''), 'status': 'scanned: tree records received from a channel', 'obligations': 1})
        if bad:
            out.append((name, '(assert true)\n(check-sat)\n', 'the Tree field of a record received from a channel is used where its Err field has not been tested: ' + '; '.join(bad), None))
        else:
            out.append((name, '(assert false)\n(check-sat)\n', '%d uses of the tree of a received record, every one reached only through the Err == nil side of a test of that record' % n, None))
    return out


BAD_TREE = '((A,B),(C,D);\n'


def replay(prog, r, payload, repo, verif):
    """confirm on the real code: the consumer is run on the record the reader delivers for an unreadable tree (a
    command: through its RunE with the input option naming a malformed Newick file; a library function: with a
    channel carrying one record {Tree: nil, Err: error}) and dies with a run-time panic"""
    import json, os, subprocess
    name = r['name'].split('#')[0]
    key = prog.resolve(name)
    fn = prog.funcs.get(key)
    if fn is None:
        return False
    rdir = os.path.join(verif, 'replays', payload['property'])
    os.makedirs(rdir, exist_ok=True)
    base = re.sub(r'[^A-Za-z0-9_]', '_', r['name'])[:100]
    m = re.match(r'^cmd\.(\w+)\.RunE$', name)
    if m:
        pkgdir, pkgname = 'cmd', 'cmd'
        var = m.group(1)
        # the string options the command reads: the input tree gets the malformed file, alignments / state tables a
        # well-formed one, so that the command reaches the loop over the trees
        sets = []
        seen = set()
        for b in fn['blocks']:
            for x in b['instrs']:
                for v in [x.get('x') or {}] + list(x.get('args') or []):
                    if v.get('k') == 'global' and v.get('pkg') == 'cmd' and v.get('type') == '*string' and v['name'] not in seen:
                        seen.add(v['name'])
                        g = v['name']
                        if g == 'intreefile':
                            sets.append('\t%s = bad\n' % g)
                        elif 'align' in g.lower():
                            sets.append('\t%s = write("al.fa", ">A\\nAC\\n>B\\nAC\\n>C\\nAG\\n>D\\nAG\\n")\n' % g)
                        elif 'states' in g.lower():
                            sets.append('\t%s = write("st.txt", "A,x\\nB,y\\nC,x\\nD,y\\n")\n' % g)
        src = ('package cmd\n\nimport (\n\t"fmt"\n\t"os"\n\t"path/filepath"\n\t"testing"\n)\n\n'
               'func TestGovcReplay(t *testing.T) {\n\tdir := t.TempDir()\n'
               '\twrite := func(n, s string) string { p := filepath.Join(dir, n); os.WriteFile(p, []byte(s), 0600); return p }\n'
               '\tbad := write("bad.nw", %s)\n\t_ = bad\n%s'
               '\tdefer func() {\n\t\tif rec := recover(); rec != nil {\n\t\t\tfmt.Printf("GOVC-PANIC %%v\\n", rec)\n\t\t}\n\t}()\n'
               '\terr := %s.RunE(%s, nil)\n\tfmt.Printf("GOVC-RETURNED %%v\\n", err)\n}\n') % (json.dumps(BAD_TREE), ''.join(sets), var, var)
    else:
        m2 = re.match(r'^([\w/]+)\.(\w+)$', name)
        if not m2:
            return False
        pkgdir, fname = m2.group(1), m2.group(2)
        pkgname = pkgdir.split('/')[-1]
        args, chan = [], None
        for p_ in fn.get('params', []):
            ty = p_['type']
            if ty.endswith('chan tree.Trees'):
                chan = p_['name']
                args.append('ch')
            elif ty in ('int', 'uint', 'int64', 'uint64', 'float64'):
                args.append('0')
            elif ty == 'bool':
                args.append('false')
            elif ty == 'string':
                args.append('""')
            else:
                args.append('nil')
        if chan is None:
            return False
        q = '' if pkgname == 'tree' else 'tree.'
        imp = '' if pkgname == 'tree' else '\t"github.com/evolbioinfo/gotree/tree"\n'
        src = ('package %s\n\nimport (\n\t"errors"\n\t"fmt"\n\t"testing"\n%s)\n\n'
               'func TestGovcReplay(t *testing.T) {\n\tch := make(chan %sTrees, 1)\n'
               '\tch <- %sTrees{Tree: nil, Id: 0, Err: errors.New("unreadable tree")}\n\tclose(ch)\n'
               '\tdefer func() {\n\t\tif rec := recover(); rec != nil {\n\t\t\tfmt.Printf("GOVC-PANIC %%v\\n", rec)\n\t\t}\n\t}()\n'
               '\t%s(%s)\n\tfmt.Printf("GOVC-RETURNED\\n")\n}\n') % (pkgname, imp, q, q, fname, ', '.join(args))
    testpath = os.path.join(rdir, base + '_test.go')
    open(testpath, 'w').write(src)
    ov = os.path.join(rdir, base + '_overlay.json')
    json.dump({'Replace': {os.path.join(repo, pkgdir, 'zz_govc_replay_test.go'): testpath}}, open(ov, 'w'))
    env = dict(os.environ, GOFLAGS='-mod=mod', GOPROXY='off', GOSUMDB='off', GOTOOLCHAIN='local')
    cmd = ['go', 'test', '-overlay', ov, '-v', '-vet=off', '-count=1', '-timeout', '120s', '-run', '^TestGovcReplay$', './' + pkgdir]
    p = subprocess.run(cmd, cwd=repo, capture_output=True, text=True, env=env)
    out = p.stdout + p.stderr
    payload['replay_test'] = testpath
    payload['replay_cmd'] = 'cd %s && %s' % (repo, ' '.join(cmd))
    payload['replay_output'] = out[-2000:]
    ok = 'GOVC-PANIC' in out and 'nil pointer' in out
    payload['replay_confirmed'] = ok
    payload['failing_input'] = 'a tree file containing %r (unbalanced parentheses) as input of the command' % BAD_TREE if m else 'one record {Tree: nil, Err: non-nil} on the channel'
    return ok
