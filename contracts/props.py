"""Which functions / lemmas / special analyses decide which property (DESIGN.md section 4)."""

A_COMMON = [
    'A-ENGINE: the VC generator (exporter, symbolic executor, contract parser) is trusted; mitigated by selftest corpus and vacuity covers',
    'A-SSA: go/ssa (x/tools v0.29.0) translation of Go to SSA and go/types',
    'A-SMT: z3 5.1.0 / z3 4.8.12 / cvc5 1.0.3; one unsat answer discharges an obligation',
    'A-INT: int/uint arithmetic is mathematical (no wrap-around); A-FP: float64 is modelled as real numbers',
]
TB_COMMON = ['govc VC generator', 'go/ssa x/tools v0.29.0', 'z3 5.1.0', 'z3 4.8.12', 'cvc5 1.0.3']

PROPS = {}
NOT_APPLICABLE = {}

PROPS['C04'] = {
    'level': 'proof', 'claimed': True,
    'claim': 'unbounded proof, for all 4-tuples of taxa, that quartet equality (HashEquals) implies equal HashCode and that Compare classifies exactly as the statement says; further C04 clauses are added as their contracts discharge',
    'level_note': 'relative to the VC generator, go/ssa, the SMT solvers, mathematical integers (A-INT)',
    'packages': ['./tree', './hashmap'],
    'functions': [
        '(*tree.Quartet).Compare', '(*tree.Quartet).HashCode', '(*tree.Quartet).HashEquals',
    ],
    'lemma_files': [],
    'trusted_base': TB_COMMON,
    'assumptions': A_COMMON,
    'not_decided': [],
}
