"""Which functions / lemmas / special analyses decide which property (DESIGN.md section 4)."""

A_COMMON = [
    'A-ENGINE: the VC generator (exporter, symbolic executor, contract parser) is trusted; mitigated by selftest corpus and vacuity covers',
    'A-SSA: go/ssa (x/tools v0.29.0) translation of Go to SSA and go/types',
    'A-SMT: z3 5.1.0 / z3 4.8.12 / cvc5 1.0.3; one unsat answer discharges an obligation',
    'A-INT: int/uint arithmetic is mathematical (no wrap-around); A-FP: float64 is modelled as real numbers',
]
TB_COMMON = ['govc VC generator', 'go/ssa x/tools v0.29.0', 'z3 5.1.0', 'z3 4.8.12', 'cvc5 1.0.3']

PROPS = {}
NOT_APPLICABLE = {}

PROPS['C04'] = {
    'level': 'proof', 'claimed': True,
    'claim': 'unbounded proof, for all 4-tuples of taxa, that quartet equality (HashEquals) implies equal HashCode and that Compare classifies exactly as the statement says; further C04 clauses are added as their contracts discharge',
    'level_note': 'relative to the VC generator, go/ssa, the SMT solvers, mathematical integers (A-INT)',
    'packages': ['./tree', './hashmap'],
    'functions': [
        '(*tree.Quartet).Compare', '(*tree.Quartet).HashCode', '(*tree.Quartet).HashEquals',
        '(*tree.Edge).HashCode', '(*tree.Tree).UpdateTipIndex',
        '(*tree.Edge).HashEquals', '(*tree.Edge).SameBipartition', '(*tree.Edge).FindEdge',
        '(*tree.Tree).clearBitSetsRecur', '(*tree.Tree).ClearBitSets',
        '(*hashmap.HashMap).Value', '(*hashmap.HashMap).PutValue', '(*hashmap.HashMap).rehash', 'hashmap.NewHashMap',
        'tree.NewEdgeIndex', '(*tree.EdgeIndex).AddEdgeCount', '(*tree.EdgeIndex).Value', '(*tree.EdgeIndex).PutEdgeValue',
        '(*tree.Tree).computeEdgeHashesRightRecur', '(*tree.Tree).computeEdgeHashesLeftRecur',
        ('(*tree.Tree).ReinitIndexes', {'match': [r'^callsite', r'^post']}), ('(*tree.Tree).ReinitInternalIndexes', {'match': [r'^callsite']}),
        ('(*tree.Tree).ComputeEdgeHashes', {'match': [r'^callsite']}),
        ('(*tree.Tree).ShuffleTips', {'match': [r'^callsite', r'^post']}),
        ('(*tree.Tree).fillRightBitSet', {'match': [r'^callsite', r'^post', r'^inv']}), ('(*tree.Tree).UpdateBitSet', {'match': [r'^callsite']}),
        '(*tree.Tree).tipEdgesRecur', '(*tree.Tree).TipEdges',
        '(*tree.Tree).edgesRecur', '(*tree.Tree).Edges', '(*tree.Tree).tipsRecur', ('(*tree.Tree).Tips', {'match': [r'^post\.(elements_non_nil|only_tips|fresh_storage)', r'^frame', r'^pre', r'^nil', r'^bounds']}), ('(*tree.Tree).internalEdgesRecur', {'match': [r'^post', r'^inv']}), ('(*tree.Tree).InternalEdges', {'match': [r'^post', r'^inv']}),
    ],
    'lemma_files': [],
    'trusted_base': TB_COMMON,
    'assumptions': A_COMMON,
    'not_decided': [],
}

PROPS['C19'] = {
    'level': 'proof', 'claimed': True,
    'claim': 'complete symbolic execution of package cmd\'s initialisation (variable initialisers and every init() in Go\'s order) under the pflag contract "XxxVar[P](p,..,value,..) ensures *p == value"; one obligation per registered option: the variable\'s value after all registrations equals the documented default. Exhaustive over all commands and options, whatever they are at the time of the run',
    'level_note': 'relative to the pflag/cobra contract (registration assigns the default; help prints DefValue; nothing else writes the option variables before flag parsing), go/ssa init order, the SMT solvers',
    'packages': ['./cmd'],
    'functions': ['cmd.RootCmd.PersistentPreRun'],
    'special': ['c19'],
    'trusted_base': TB_COMMON + ['spf13/pflag: (*FlagSet).TVar[P] assigns *p = value at registration and shows value as the default', 'spf13/cobra: Flags()/PersistentFlags() identity per command'],
    'assumptions': A_COMMON + ['RunE bodies may rewrite option variables after parsing (e.g. rootCpus clamped to NumCPU): not part of the property'],
    'not_decided': ['what each RunE does with the value (PersistentPreRun is under contract: the seed is used as given, -1 means the clock whether written out or omitted)'],
    'technique': 'contract-based deductive verification: symbolic execution of the real init() SSA under the pflag contract, equalities discharged by z3/cvc5',
}

PROPS['C15'] = {
    'level': 'proof', 'claimed': True,
    'claim': 'unbounded proof that CopyNode/CopyEdge produce exact copies (names, ids, lengths, supports, p-values, index fields, node and branch comments element by element) in freshly allocated storage (comment slices and bitsets are not shared with the source) and write nothing else; further C15 functions are added as their contracts discharge',
    'level_note': 'relative to the VC generator, go/ssa, the SMT solvers, the trusted model of fredericlemoine/bitset (Clone returns a fresh object with equal contents)',
    'packages': ['./tree', './hashmap'],
    'functions': ['(*tree.Tree).CopyNode', '(*tree.Tree).CopyEdge',
                  ('(*tree.Tree).removeSingleNodesRecur', {'match': [r'^callsite', r'^inv', r'^store']}),
                  '(*tree.Node).ParentEdge', '(*tree.Node).Parent', '(*tree.Tree).GraftTreeOnTip', '(*tree.Tree).InsertIdenticalTip',
                  ('(*tree.Tree).InsertIdenticalTips', {'match': [r'^callsite', r'^post', r'^inv']}),
                  ('(*tree.Tree).copyTreeRecur', {'match': [r'^callsite']}), ('(*tree.Tree).Clone', {'match': [r'^callsite', r'^post']}),
                  ('(*tree.Tree).SubTree', {'match': [r'^callsite', r'^post']}), ('(*tree.Tree).Merge', {'match': [r'^callsite', r'^post', r'^inv']})],
    'trusted_base': TB_COMMON,
    'assumptions': A_COMMON,
    'not_decided': ['clone structure as a whole (copyTreeRecur), graft/merge/insert transformers: not yet under contract'],
}

PROPS['C20'] = {
    'level': 'proof', 'claimed': True,
    'claim': 'weakest pre-expectation argument for the two reservoir samplers (tips: cmd.randomTips; trees: gotree sample, with and without replacement): the real loop bodies are proved, for every state and every draw r, to be exactly the abstract reservoir step (one draw uniform in [0, #seen+1) resp. [0,#seen); slot r replaced iff r < k resp. r == 0; all other slots unchanged), and the lemmas prove by real arithmetic that this step preserves the invariant expectation Pr[element in sample] = k/#seen (resp. 1/#seen per slot) and that no other draw range does. Unbounded in input size, sample size and seed',
    'level_note': 'relative to: soundness of the wpe loop rule (A-PGCL), math/rand.Intn uniform on [0,n) (A-RAND), the VC generator, go/ssa, the SMT solvers. Tree generators: the insertion branch (uniform) resp. tip (Yule) is drawn by one rand.Intn over exactly the candidates created so far, and every branch/tip created becomes a candidate exactly once. ShuffleTips applies one rand.Perm of all names position by position; RotateNeighbors is the Fisher-Yates step (slot i exchanged with a slot drawn among 0..i, nothing else moves)',
    'packages': ['./tree', './hashmap', './io/...', './support', './acr', './asr', './cmd'],
    'functions': [('cmd.randomTips', {'only': ['callsite', 'step', 'inv', 'post', 'pre', 'bounds', 'nil', 'loopframe', 'frame']}),
                  ('cmd.sampleCmd.RunE', {'only': ['callsite', 'step', 'inv', 'nilchan']}),
                  ('tree.RandomUniformBinaryTree', {'match': [r'^callsite\.math/rand', r'^callsite\..*GraftTipOnEdge', r'^step']}),
                  ('tree.RandomYuleBinaryTree', {'match': [r'^callsite\.math/rand', r'^callsite\..*GraftTipOnEdge', r'^step']}),
                  ('(*tree.Tree).ShuffleTips', {'match': [r'^callsite', r'^post']}),
                  '(*tree.Node).RotateNeighbors'],
    'lemma_files': ['cmd'],
    'trusted_base': TB_COMMON + ['A-PGCL: weakest pre-expectation calculus (loop rule with invariant expectation)', 'A-RAND: rand.Intn(n) uniform on [0,n)'],
    'assumptions': A_COMMON,
    'not_decided': ['uniformity over labelled topologies of RandomUniformBinaryTree (counting lemma)', 'quality of math/rand', 'that n! permutations are equiprobable given uniform draws (textbook Fisher-Yates counting argument; A-RAND for rand.Perm)'],
    'technique': 'contract-based deductive verification: loop bodies proved equal to the abstract reservoir step (VCs over go/ssa, z3/cvc5); expectation identities as real-arithmetic lemmas',
}

ALLPK = ['./tree', './hashmap', './io/...', './support', './acr', './asr', './cmd']

PROPS['C08'] = {
    'level': 'proof', 'claimed': True,
    'claim': 'unbounded proof on the real worker closures of Compare and CompareWeighted that, for every received tree, exactly one record is sent which carries the tree identifier, has Tree1 + Common equal to the number of reference splits counted, and reports Sametree exactly when both specific counts are zero (Compare; one direction for CompareWeighted); that the split index is consulted only after the taxon check succeeded, and that an erroneous or mismatched tree yields a record with a non-nil error. Counting loop invariant: identical-so-far <=> every compared branch found',
    'level_note': 'relative to the assumed (not yet verified) contracts of ReinitIndexes, Edges, CompareTipIndexes, EdgeIndex.Value/PutEdgeValue, the channel message invariant (a message is a tree or an error), and: "number of branches found" = "number of shared splits" needs distinct branches of one tree to have distinct splits (unrooted, no degree-2 node: the statement\'s quantifier)',
    'packages': ALLPK,
    'functions': [('tree.Compare$1', {'match': [r'^send\.stats\.(identical|no_specific|counts|record)', r'^callsite', r'^inv\..*L2', r'^nil', r'^bounds', r'^pre', r'^typeassert']}),
                  ('tree.CompareWeighted$1', {'match': [r'^send\.stats\.(identical|record)', r'^callsite', r'^inv\..*L[234]', r'^nil', r'^bounds', r'^pre', r'^typeassert']}),
                  '(*tree.Tree).CompareTipIndexes', 'tree.CommonEdges', '(*tree.Tree).CommonEdges', '(*tree.Edge).FindEdge',
                  ('cmd.compareTreesCmd.RunE', {'match': [r'^callsite\.fmt', r'^step', r'^return']}), '(*tree.Edge).HashCode',
                  '(*tree.EdgeIndex).Value', '(*tree.EdgeIndex).PutEdgeValue',
                  ('tree.Compare', {'match': [r'^callsite', r'^post', r'^step', r'^inv', r'^nil', r'^bounds']}),
                  ('tree.CompareWeighted', {'match': [r'^callsite', r'^post', r'^step', r'^inv', r'^nil', r'^bounds']})],
    'trusted_base': TB_COMMON,
    'assumptions': A_COMMON,
    'not_decided': ['Common == |S1 n S2| as a set identity (needs the split-class abstraction of the index: C04 stretch)', 'symmetry under swapping the trees and independence of rooting (corollaries of the set formulation)', 'the final square root of KF and the %E formatting (fmt)'],
}

PROPS['C11'] = {
    'level': 'other', 'claimed': True,
    'claim': 'sufficient conditions for schedule independence and termination, proved on the real worker closures (Compare, CompareWeighted, FBP, TBE feeder and edge workers): (1) ownership - no store of a worker hits a variable captured from the enclosing function (every Store is checked against every captured cell and every object a captured pointer refers to, unless a mutex is held); the shared index is only read through EdgeIndex.Value whose contract assigns nothing; (2) completion - wg.Done() is executed exactly once on every exit path, the closer waits and closes the result channel exactly once, the result channel is never nil/closed at a send; (3) one record is sent per received tree and the error of an erroneous tree reaches the record. Not an exploration of interleavings',
    'level_note': 'A-OWN: ownership discipline implies data-race freedom and schedule independence under the Go memory model (trusted meta-theorem); sync.WaitGroup / channels / RWMutex semantics trusted',
    'packages': ALLPK,
    'functions': [('tree.Compare$1', {'match': [r'^ownership', r'^post\.done', r'^nilchan', r'^sendclosed', r'^send\.stats\.error', r'^inv\..*L1']}),
                  ('tree.Compare$2', {}),
                  ('tree.CompareWeighted$1', {'match': [r'^ownership', r'^post\.done', r'^nilchan', r'^sendclosed', r'^send\.stats\.(error|the_lists)', r'^inv\..*(L1|lists_built)', r'^callsite\..*(PutEdgeValue|Value@L)']}),
                  ('tree.CompareWeighted$2', {}),
                  ('tree.Compare', {'match': [r'^callsite\.\(\*sync', r'^post\.one_worker', r'^inv\..*L2']}),
                  ('tree.CompareWeighted', {'match': [r'^callsite\.\(\*sync', r'^post\.one_worker', r'^inv\..*L2']}),
                  ('support.FBP$1', {'match': [r'^ownership', r'^post\.done', r'^nilchan', r'^sendclosed', r'^return', r'^inv\..*L1', r'^callsite\..*@L1']}),
                  ('support.FBP$2', {}),
                  ('support.TBE$1', {}), ('support.TBE', {'match': [r'^callsite\.\(\*sync', r'^inv\..*L5']}),
                  ('support.TBE$2', {'match': [r'^ownership', r'^post\.done', r'^nilchan', r'^inv']}),
                  ('cmd.compareTreesCmd.RunE', {'match': [r'^nilchan']}),
                  ('(*hashmap.HashMap).Value', {'match': [r'^callsite', r'^post\.read_lock', r'^inv']}),
                  ('(*hashmap.HashMap).PutValue', {'match': [r'^callsite', r'^post\.write_lock', r'^inv']})],
    'trusted_base': TB_COMMON + ['A-OWN: ownership discipline => race freedom and schedule independence (Go memory model)'],
    'assumptions': A_COMMON,
    'explanation': 'Deductive proof of an ownership + completion protocol on the worker closures; sequential VCs cannot enumerate interleavings, so the result is a sufficient-condition argument (DESIGN.md section 4, C11).',
    'not_decided': ['real interleavings, buffer-size dependent deadlocks, fairness', 'object-level ownership of the received tree vs. the reference tree (callee contracts are thin)'],
}

PROPS['C10'] = {
    'level': 'proof', 'claimed': True,
    'claim': 'unbounded proofs on the real code of: FBP worker (a bootstrap tree is counted and indexed only after indexing and the taxon check succeeded; only inner bootstrap branches are indexed; index i is sent exactly for reference branches found in the bootstrap index; input, indexing and taxon errors are recorded in the result), FBP collector/final loop (support of an inner reference branch = number of messages for it / number of accepted trees; tip branches keep their support), TBE (a bootstrap tree is indexed and used only after a successful taxon check) and NormalizeTransferDistancesByDepth (support := 1 - (sum/nboot)/(depth-1) for every branch with a present value, absent values stay absent)',
    'level_note': 'relative to the assumed (thin) contracts of ReinitIndexes, Edges, CompareTipIndexes, EdgeIndex.Value/PutEdgeValue, MinTransferDist; channel message invariants; the split-class abstraction of the index (found in index <=> same split) is C04; minTransferDistRecur = Hamming minimum is not under contract',
    'packages': ALLPK,
    'functions': [('support.FBP$1', {'match': [r'^callsite', r'^send\.foundEdges', r'^return', r'^inv', r'^nil', r'^bounds', r'^pre', r'^typeassert']}),
                  ('support.FBP', {'match': [r'^step', r'^inv', r'^bounds', r'^nil', r'^nilchan']}),
                  ('support.TBE', {'match': [r'^callsite']}),
                  'support.NormalizeTransferDistancesByDepth',
                  '(*tree.Edge).HashCode', '(*tree.Tree).CompareTipIndexes',
                  ('support.minTransferDistRecur', {'match': [r'^post', r'^callsite', r'^inv']}),
                  ('support.MinTransferDist', {'match': [r'^callsite']}), ('support.TBE$2', {'match': [r'^callsite']})],
    'trusted_base': TB_COMMON,
    'assumptions': A_COMMON,
    'not_decided': ['transfer distance = minimum Hamming distance (minTransferDistRecur: monotonicity of the recorded minimum and the early-stop discipline are proved; the ones-count recurrence and its run-time safety are not)', 'TBE >= FBP and range lemmas', 'order independence of floating-point sums (A-FP)'],
}

PROPS['C07'] = {
    'level': 'proof', 'claimed': True,
    'claim': 'unbounded proof, with symbolic thresholds (so values equal to the threshold are cases of the proof), that RemoveEdges applies its skip rules and performs the documented pointer surgery per contracted branch, and that the list of branches handed to RemoveEdges by CollapseShortBranches / CollapseLowSupport / CollapseTopoDepth is exactly the set of branches satisfying the documented criterion (length <= l; support present and < s; min <= topological depth <= max): every listed branch satisfies it and every branch satisfying it is listed; collapse by support never asks for tip removal',
    'level_note': 'relative to the assumed contract of Edges (elements are live branches in fresh storage), the thin assumed contract of ReinitInternalIndexes, io.ExitWithMessage never returning, and the representation invariants INV1, INV2, OWN, LIVEBR as preconditions (DESIGN 11.3). RemoveEdges: never contracts a tip branch (zeroes its length on request only), contracts a branch next to a degree-2 end on request only, re-points and re-attaches every other neighbour of the lower end under the upper end, empties the lower end, and its frame excludes supports, names, comments and the lengths of inner branches. resolveRecur: leaves at most three neighbours at the node it returns from, re-attaches each detached neighbour under the new node with the length/support/p-value of the branch it hung on, and gives the joining branch length 0 and no support/p-value',
    'packages': ['./tree', './hashmap'],
    'functions': ['(*tree.Tree).CollapseLowSupport', '(*tree.Tree).CollapseShortBranches', '(*tree.Tree).CollapseTopoDepth',
                  '(*tree.Tree).RemoveEdges', '(*tree.Tree).unconnectNode', '(*tree.Node).delNeighbor', '(*tree.Node).NodeIndex',
                  ('(*tree.Tree).resolveRecur', {'match': [r'^post', r'^callsite']})],
    'trusted_base': TB_COMMON,
    'assumptions': A_COMMON,
    'not_decided': ['that the contraction removes exactly one split and keeps the others (L3 of lemmas/GRAPH.md)', 'resolveRecur: run-time safety of the pairing loop (index into the shuffled list, success of the detachments) needs the permutation property of rand.Perm and symmetric adjacency: not proved; that every original split and distance survives (L4/L5)', 'absent lengths (-1) are <= any non-negative threshold: the criterion is applied to the stored value as the code documents'],
}

PROPS['C14'] = {
    'level': 'proof', 'claimed': True,
    'claim': 'unbounded proofs on the real code: pathLengths adds to the running length exactly the metric weight of the branch it crosses (1 for the topological metric; the support, or 1 when absent, for the support metric; the length, or 0 when absent, for the length metric and every other value) and recurses to the neighbour away from where it came, storing the accumulated value at a tip; ToDistanceMatrix returns an n x n matrix whose row i is filled by a walk started at tip i with length 0, tip i carrying identifier i; the length-threshold flood fill crosses exactly the branches with length strictly below the threshold, starts only across such a branch, collects every tip it reaches, and the tip of a cut tip branch gets its own bag',
    'level_note': 'relative to the local representation invariant INV12 (adjacency arrays parallel, no nil entry) assumed on entry, the assumed contracts of Tips/Edges, the trusted model of sort.Slice (permutation in place). Identifiers of all tips reachable from the walk being < n is an unestablished precondition of pathLengths (no reachability predicate): reported, not claimed. matrix[i][j] == D(i,j) as a sum over the path is the induction over the tree delegated to graph lemma L7/D (A-GRAPH)',
    'packages': ['./tree', './hashmap'],
    'functions': ['tree.pathLengths',
                  ('(*tree.Tree).ToDistanceMatrix', {'match': [r'^callsite', r'^post', r'^inv', r'^bounds', r'^nil', r'^pre\.tree\.pathLengths\.0']}),
                  '(*tree.Tree).cutEdgesMaxLengthRecur', '(*tree.TipBag).AddTip',
                  ('(*tree.Tree).CutEdgesMaxLength', {'match': [r'^callsite', r'^step']}), ('tree.AvgDistanceMatrix', {'match': [r'^callsite', r'^step']}), ('(*tree.Tree).ToDistanceMatrix$1', {'match': [r'^post']})],
    'trusted_base': TB_COMMON,
    'assumptions': A_COMMON,
    'not_decided': ['sum over the path / symmetry / zero diagonal as whole-tree facts (A-GRAPH)', 'AvgDistanceMatrix: per-entry accumulation and final division are proved; that tips2 of the last tree has the length of tips (loop bounds) is not', 'sorted order of rows (sort.Slice less function)', 'floating-point summation order (A-FP)'],
}

PROPS['C12'] = {
    'level': 'proof', 'claimed': True,
    'claim': 'unbounded proof that the real up-pass code computes the Fitch/Hartigan recurrence: computeParsimony (acr and asr, including the aliased call where input and output are the same slice) turns a row of counts into the indicator of its maxima; parsimonyUPPASS (acr, asr) recurses exactly into the neighbours other than the one it came from, adds each child\'s step count exactly once and nothing for the parent side, adds exactly one step per child lacking the kept maximal state, and a tip costs no step. Optimality of that recurrence (Hartigan 1973) is assumed, not proved',
    'level_note': 'A-HARTIGAN (optimality of the recurrence on multifurcating trees) is a trusted theorem; node identifiers indexing the state table being in range is an unestablished precondition (index safety of states[id] is not claimed); down-pass / DELTRAN / ACCTRAN state sets are not under contract',
    'packages': ALLPK,
    'functions': ['acr.computeParsimony', 'asr.computeParsimony',
                  ('acr.parsimonyUPPASS', {'match': [r'^step', r'^callsite', r'^post']}),
                  ('asr.parsimonyUPPASS', {'match': [r'^step', r'^callsite']}),
                  ('acr.parsimonyDOWNPASS', {'match': [r'^callsite']}), ('asr.parsimonyDOWNPASS', {'match': [r'^callsite']}),
                  ('acr.parsimonyDELTRAN', {'match': [r'^inv', r'^bounds', r'^nil']}), ('acr.parsimonyACCTRAN', {'match': [r'^inv', r'^bounds', r'^nil']}),
                  ('asr.parsimonyDELTRAN', {'match': [r'^inv', r'^bounds', r'^nil']}), ('asr.parsimonyACCTRAN', {'match': [r'^inv', r'^bounds', r'^nil']})],
    'trusted_base': TB_COMMON + ['A-HARTIGAN: the Fitch/Hartigan recurrence yields the minimum number of changes (Hartigan 1973)'],
    'assumptions': A_COMMON,
    'not_decided': ['optimality itself; the down-pass state sets as a whole (the per-child accumulation buffers and targets are proved, the sums are not); DELTRAN/ACCTRAN are proved as the intersection rule per node (and per site) given that node identifiers index distinct rows of the tables, which the recursion does not re-establish; rooting independence (corollary of optimality)', 'site-by-site agreement acr/asr (both are proved against the same recurrence)'],
}

PROPS['C18'] = {
    'level': 'other', 'claimed': True,
    'claim': '(a) structural: the listed traversal, selection, output and generator functions contain no iteration over a map at all (one obligation per function, regenerated from the SSA of the current tree); (b) determinism reduced to one-run proofs: map iteration is modelled demonically (every Next delivers an arbitrary not-yet-visited key), and at the anchored sites a postcondition/invariant that determines the result from the inputs alone is proved for every iteration order: (1) asr up-pass, expansion of the "any amino acid" code: the set of expanded states equals the alphabet minus gap and "*", whatever the order; (2) Tree.Rename: after any prefix of the iteration every indexed node carries namemap[name] if its key was delivered and its original name otherwise, and the name index is not modified inside the loop. Together with C19/C20 style seed handling this is a sufficient-condition argument, not a whole-program 2-safety proof',
    'level_note': 'the engine never converts pointers to integers and compares pointers only for equality, so addresses are unobservable in the verified functions; rand is a function of the seed (A-RAND); acr alphabet construction, nexus writer label tables and cross-process byte identity are not under contract',
    'packages': ALLPK,
    'special': ['c18'],
    'ordered_functions': ['(*tree.Tree).LeastCommonAncestorUnrooted', '(*tree.Tree).LeastCommonAncestorRooted', '(*tree.Tree).LeastCommonAncestorRecur',
                          '(*tree.Tree).RerootOutGroup', '(*tree.Tree).RerootMidPoint', 'tree.MaxLengthPath',
                          '(*tree.Tree).Tips', '(*tree.Tree).tipsRecur', '(*tree.Tree).SortedTips', '(*tree.Tree).AllTipNames',
                          '(*tree.Tree).Edges', '(*tree.Tree).edgesRecur', '(*tree.Tree).Nodes', '(*tree.Tree).nodesRecur',
                          '(*tree.Tree).Newick', '(*tree.Node).Newick', 'io/nexus.WriteNexus', '(*tree.Tree).ToDistanceMatrix',
                          'tree.RandomUniformBinaryTree', 'tree.RandomYuleBinaryTree', '(*tree.Tree).ShuffleTips', '(*tree.Node).RotateNeighbors',
                          'tree.Consensus', '(*tree.EdgeIndex).Edges', '(*hashmap.HashMap).KeyValues', '(*hashmap.HashMap).Keys',
                          'acr.parsimonyUPPASS', 'acr.parsimonyDOWNPASS', 'acr.parsimonyDELTRAN', 'acr.parsimonyACCTRAN', 'acr.assignStatesToTree',
                          'asr.parsimonyDOWNPASS', 'asr.parsimonyDELTRAN', 'asr.parsimonyACCTRAN',
                          'cmd.randomTips', 'cmd.sampleCmd.RunE'],
    'functions': [('asr.parsimonyUPPASS', {'match': [r'^inv\..*L2']}),
                  ('(*tree.Tree).Rename', {'match': [r'^inv', r'^loopframe', r'^nil', r'^pre']}), 'cmd.RootCmd.PersistentPreRun', '(*tree.TipBag).Tips', ('tree.Compare$1', {'match': [r'^ownership']}), ('tree.CompareWeighted$1', {'match': [r'^ownership', r'^send\.stats\.the_lists', r'^inv\..*lists_built']})],
    'trusted_base': TB_COMMON,
    'assumptions': A_COMMON,
    'explanation': 'Functional-postcondition argument under demonic map iteration at the listed sites (DESIGN.md section 4, C18); not a whole-program determinism proof.',
    'not_decided': ['byte-identical output across processes for whole commands', 'clock independence beyond the seed', 'map-ranging functions not under contract (acr alphabet, nexus WriteNexus, TipBag.Tips, UpdateTipIndex, Merge)'],
}

PROPS['C02'] = {
    'level': 'proof', 'claimed': True,
    'claim': 'unbounded no-panic proofs (every index/slice/nil/division fault obligation discharged for all byte streams, the reader being an arbitrary source of lines/runes) for the functions listed in functions_under_contract; so far: the Newick stream splitter, the multi-tree reader goroutine, the single-tree entry point, the whole Newick scanner and parser and the whole Nexus scanner and parser (every loop additionally proved to terminate: each iteration consumes input of the abstract rune stream or sets its stop flag; end of input inside a comment, command or block is reported as an error)',
    'level_note': 'bufio/bytes/strings/strconv are trusted to be total and to return well-typed values; termination is proved only where a decreases clause is given; memory and stack exhaustion are environment facts',
    'packages': ALLPK,
    'functions': ['io/fileutils.ReadUntilSemiColon', 'io/utils.ReadMultiTrees$1', 'io/utils.ReadTreeReader',
                  '(*io/nexus.Scanner).read', '(*io/nexus.Scanner).unread', '(*io/nexus.Scanner).scanWhitespace', '(*io/nexus.Scanner).scanIdent',
                  '(*io/nexus.Scanner).Scan', '(*io/nexus.Parser).scan', '(*io/nexus.Parser).unscan', '(*io/nexus.Parser).scanIgnoreWhitespace',
                  '(*io/nexus.Parser).scanIgnoreWhitespaceAndEOL', '(*io/nexus.Parser).consumeComment', '(*io/nexus.Parser).parseUnsupportedCommand',
                  '(*io/nexus.Parser).parseUnsupportedKey', '(*io/nexus.Parser).parseUnsupportedBlock', '(*io/nexus.Parser).parseData',
                  '(*io/nexus.Parser).parseTaxa', '(*io/nexus.Parser).parseTranslationTable', '(*io/nexus.Parser).parseTrees',
                  '(*io/newick.Scanner).read', '(*io/newick.Scanner).unread', '(*io/newick.Scanner).scanWhitespace', '(*io/newick.Scanner).scanIdent',
                  '(*io/newick.Scanner).Scan', '(*io/newick.Parser).scan', '(*io/newick.Parser).unscan', '(*io/newick.Parser).scanIgnoreWhitespace',
                  '(*io/newick.Parser).consumeComment', '(*io/newick.NodeStack).Clear',
                  ('(*io/newick.Parser).parseIter', {'match': [r'^nil', r'^bounds', r'^div0', r'^typeassert', r'^nopanic', r'^decreases', r'^inv', r'^pre\.(?!\(\*tree\.Tree\)\.ConnectNodes)', r'^noexit', r'^post']}),
                  ('(*io/newick.Parser).Parse', {'match': [r'^nil', r'^bounds', r'^div0', r'^typeassert', r'^nopanic', r'^decreases', r'^inv', r'^pre', r'^noexit', r'^post']}),
                  ('(*io/nexus.Parser).Parse', {'match': [r'^nil', r'^bounds', r'^div0', r'^typeassert', r'^nopanic', r'^decreases', r'^inv', r'^pre', r'^noexit']}), 'io/phyloxml.cladeToTree', 'io/nextstrain.cladeToTree'],
    'trusted_base': TB_COMMON,
    'assumptions': A_COMMON,
    'not_decided': ['memory / stack exhaustion on huge nesting', 'faults inside encoding/xml, encoding/json, bufio, strconv, goalign'],
}

PROPS['C13'] = {
    'level': 'other', 'claimed': True,
    'claim': 'proved agreement contracts on the real reader entry points: the multi-tree reader goroutine sends, for every format, records that are a tree or an error, with identifiers 0,1,2,... in sending order, and closes the channel exactly once at the end; the Newick stream splitter stops exactly at a line whose last non-blank byte of the accumulated text is ";"; PhyloXML FirstTree returns a tree whenever the document has a phylogeny (built by the same constructor IterateTrees uses, which calls its callback once per phylogeny in document order); Nexus FirstTree is trees[0]; ReadTreeReader returns a tree or an error for all four formats and an error for any other format value. Conversion chains (write then read) are not decided',
    'level_note': 'parser bodies (nexus Parse, phyloxml Parse via encoding/xml, newick Parse) enter through assumed thin contracts; callbacks passed to IterateTrees are verified separately and their effects havocked at the call; whole-document parse(write(t)) identities are outside this technique (DESIGN.md section 5)',
    'packages': ALLPK,
    'functions': ['io/utils.ReadMultiTrees$1', 'io/utils.ReadMultiTrees$1$1', 'io/utils.ReadMultiTrees$1$2', 'io/utils.ReadTreeReader',
                  '(*io/phyloxml.PhyloXML).FirstTree', '(*io/phyloxml.PhyloXML).IterateTrees',
                  '(*io/nexus.Nexus).FirstTree', '(*io/nexus.Nexus).AddTree', 'io/fileutils.ReadUntilSemiColon', ('io/nexus.WriteNexus', {'match': [r'^callsite', r'^step', r'^nilchan']}), 'io/phyloxml.cladeToTree', 'io/phyloxml.writeClade', ('io/phyloxml.phylogenyToTree', {'match': [r'^callsite']})],
    'trusted_base': TB_COMMON,
    'assumptions': A_COMMON,
    'explanation': 'Relational / agreement contracts on the entry points, proved deductively; format conversion round trips are compositions outside the reach of per-function contracts and are not claimed.',
    'not_decided': ['Newick <-> Nexus <-> PhyloXML conversion round trips (whole-document identities)', 'Nexus translate table inverse renaming', 'PhyloXML field correspondence writeClade/cladeToTree'],
}

PROPS['C01'] = {
    'level': 'other', 'claimed': True,
    'claim': 'local contracts of the Newick reader proved on the real code for all token streams: in parseIter a label after ")" is taken either as a node name or as a support value (with an optional p-value), never both - a name never comes with a changed support/p-value of the branch and a support never with a changed name; every iteration consumes input or returns; no run-time fault. The writer (Node.Newick) and the whole-document identity parse(write(t)) = t are not decided',
    'level_note': 'the composition parse o write over unbounded trees is a simultaneous induction over tree and token stream that no per-function contract expresses (DESIGN.md section 5); strconv round-trip exactness is trusted',
    'packages': ALLPK,
    'functions': [('(*io/newick.Parser).parseIter', {'match': [r'^step', r'^inv', r'^decreases']}),
                  '(*io/newick.Scanner).Scan', '(*io/newick.Scanner).scanIdent', '(*tree.Node).Newick', ('(*tree.Tree).Newick', {'match': [r'^callsite', r'^step']})],
    'trusted_base': TB_COMMON,
    'assumptions': A_COMMON,
    'explanation': 'Deductive per-token contracts of the real parser; the round trip itself is a composition outside this technique.',
    'not_decided': ['parse(write(t)) = t and byte-identical rewrite for unbounded trees', 'writer emission order (Node.Newick): which list each comment comes from, the float format and the recursion discipline are proved, the order of the pieces is not', 'lexer classification isIdent as a full equivalence'],
}

INVNOTE = 'representation invariant INV = parallel adjacency arrays, live non-self entries, every branch joins its node and the neighbour in the same slot, simple graph, unshared backing arrays (global symmetric-adjacency quantifier I4 is proved only locally, per touched slot); acyclicity/connectivity follow from the exact adjacency change by graph lemmas L1-L9 (A-GRAPH, not machine-checked)'

PROPS['C17'] = {
    'level': 'proof', 'claimed': True,
    'claim': 'unbounded proof on the real nni.Apply, for every binary neighbourhood, slot order and root position: the sub-trees n1_2 and X (n2_2, or n2_1 when crossed) exchange places in the same neighbour slots of n1 and n2, every other slot is untouched, the central branch is reversed exactly when the root lies beyond n1_2, the representation invariant and the orientation invariant (at most one incoming branch per node, none at the root) are re-established; applying an already applied NNI is a no-op. Undo is proved to be the mirror transformer (n1_2 and X return to the same slots with their own branch objects, the central branch is reversed back exactly when it was reversed), and Apply is proved to establish exactly the precondition Undo needs, so Undo after Apply restores every slot and orientation. newNNI picks the two other neighbours on each side (index arithmetic mod 3); Rearrange builds moves only on branches whose two ends have three neighbours and calls the callback at most twice per such branch and never otherwise',
    'level_note': INVNOTE + '; precondition: the six nodes are distinct, n1/n2 of degree 3, linked both ways by shared branch objects, the central branch oriented n1->n2 (what newNNI is given by Rearrange)',
    'packages': ['./tree', './hashmap'],
    'functions': ['(*tree.nni).Apply', '(*tree.nni).Undo', 'tree.newNNI', '(*tree.Node).NodeIndex', '(*tree.Node).IsConnected',
                  ('(*tree.NNIRearranger).Rearrange', {'match': [r'^callsite', r'^step', r'^nil', r'^bounds']})],
    'trusted_base': TB_COMMON,
    'assumptions': A_COMMON,
    'not_decided': ['pairwise distinctness of all proposed neighbours of a tree (whole-tree fact, L6)', 'Undo o Apply = identity as a single machine-checked statement (it is the composition of the two proved transformers; Apply establishes Undo\'s precondition)', 'adjacency of the two ends of every branch returned by Edges (symmetric adjacency) is an unestablished precondition of newNNI at its call site in Rearrange'],
}

PROPS['C16'] = {
    'level': 'proof', 'claimed': True,
    'claim': 'unbounded proofs on the real code: GraftTipOnEdge subdivides the branch in place (same neighbour slots on both ends) by a fresh inner node of degree three, gives both halves exactly half of the old length and the new tip branch length 1, re-establishes the representation and orientation invariants; NewNode/ConnectNodes likewise; RandomUniformBinaryTree rejects fewer than 3 tips with an error, draws the insertion branch with rand.Intn(len(edges)) among all branches created so far (two are appended per grafted tip, one or two in the first round), grafts the new tip on exactly that branch, and gives the branches it creates a non-negative length (first round: the second root branch when rooted / the first branch when unrooted; later rounds: both new branches)',
    'level_note': INVNOTE,
    'packages': ['./tree', './hashmap'],
    'functions': ['(*tree.Tree).GraftTipOnEdge', '(*tree.Tree).NewNode', '(*tree.Tree).ConnectNodes',
                  ('tree.RandomUniformBinaryTree', {'match': [r'^post', r'^callsite', r'^step', r'^inv', r'^bounds']}),
                  ('tree.RandomYuleBinaryTree', {'match': [r'^post', r'^callsite', r'^step', r'^inv', r'^pre\.rand']}),
                  ('tree.allTopologies_recur', {'match': [r'^callsite', r'^step']}),
                  ('tree.AllTopologies', {'match': [r'^post', r'^callsite']}),
                  ('tree.RandomCaterpillarBinaryTree', {'match': [r'^post', r'^callsite', r'^step', r'^inv']}),
                  ('tree.randomBalancedBinaryTreeRecur', {'match': [r'^post', r'^callsite']}),
                  ('tree.RandomBalancedBinaryTree', {'match': [r'^post', r'^callsite']}),
                  ('tree.StarTree', {'match': [r'^post', r'^callsite', r'^step', r'^inv']})],
    'trusted_base': TB_COMMON,
    'assumptions': A_COMMON,
    'not_decided': ['each of the (2n-5)!! / (2n-3)!! topologies exactly once (combinatorial bijection)', 'uniqueness of generated tip names (strconv.Itoa injective: trusted)'],
}

PROPS['C06'] = {
    'level': 'proof', 'claimed': True,
    'claim': 'unbounded proofs on the real code: RemoveTips calls removeTip exactly on the tips whose membership in the given name list differs from `revert` (names absent from the tree have no effect because the loop ranges over the tips), refuses a listed node that is not a tip, and rebuilds the tip-name index after the last removal and before the branch indexes, so look-ups by name reflect the pruned tip set; removeTip, when the inner node is left with two neighbours and is suppressed, gives the merging branch max(0,l1)+max(0,l2) exactly when either length is present (absent otherwise), the larger support only when both neighbours are inner nodes (absent otherwise), and when the suppressed node was the root the new root is the upper end of the merging branch; the degree-one chain loop keeps the invariants INV1, INV2, INV5, OWN, INVE; delNode kills exactly the given node and only its own branches lose their ends',
    'level_note': INVNOTE + '; preconditions: the tip hangs below its branch (its branch points to it); inside the chain loop the precondition of delNeighbor on the parent (the remaining branch of a degree-one inner node points to it) is unestablished and reported; INV3 (branch ends) is not carried through the chain loop (deletions need symmetric adjacency); induced-subtree consequences (splits are the restrictions, path lengths unchanged) follow per removed tip from graph lemmas L5/L3 (A-GRAPH)',
    'packages': ALLPK,
    'functions': [('(*tree.Tree).removeTip', {'match': [r'^return', r'^post', r'^inv', r'^nil', r'^bounds', r'^pre\.\(\*tree\.Tree\)', r'^pre\.\(\*tree\.Node\)\.delNeighbor\.0$', r'^pre\.\(\*tree\.Node\)\.delNeighbor\.0\[[2-9]\]']}),
                  ('(*tree.Tree).RemoveTips', {'match': [r'^callsite', r'^post', r'^inv', r'^nil', r'^bounds']}),
                  '(*tree.Tree).delNode', '(*tree.Node).delNeighbor', '(*tree.Node).NodeIndex',
                  ('cmd.specificTips', {'match': [r'^inv', r'^step', r'^return']}), ('cmd.pruneCmd.RunE', {'match': [r'^callsite', r'^step', r'^pre\.\(\*tree\.Tree\)\.RemoveTips']}),
                  ('(*tree.Tree).clearBitSetsRecur', {'match': [r'^callsite']}), ('(*tree.Tree).ReinitInternalIndexes', {'match': [r'^callsite']})],
    'trusted_base': TB_COMMON,
    'assumptions': A_COMMON,
    'not_decided': ['induced-subtree theorem as a whole (A-GRAPH)', 'cmd/prune.go: that Nodes() lists every node (completeness of specificTips over the whole tree)'],
}

PROPS['C03'] = {
    'level': 'proof', 'claimed': True,
    'claim': 'unbounded proofs on the real code that the editing primitives re-establish the representation invariant (parallel adjacency arrays, live non-self entries, every branch joins its node and the neighbour in the same slot, simple graph, unshared backing arrays, branch ends allocated) and the orientation invariant (at most one incoming branch per node, none at the root): NewNode, ConnectNodes (plus symmetric new slots), GraftTipOnEdge, NNI Apply and Undo; delNeighbor removes exactly the first slot holding the neighbour from both parallel arrays keeping the order of the rest; delNode kills exactly its node; InternalEdges returns inner branches only (every branch appended by the recursion has a non-tip lower end). Sequences of edits are covered by modularity (each operation from invariant to invariant)',
    'level_note': INVNOTE + '; removeTip, RemoveEdges, UnRoot, Reroot/ReorderEdges, Resolve, AddBipartition, InsertIdenticalTip, Merge, GraftTreeOnTip are not yet proved to preserve the invariant (deletions need symmetric adjacency as an invariant); nil-safety of the enumerators needs the invariant as precondition (reported as unestablished)',
    'packages': ['./tree', './hashmap'],
    'functions': ['(*tree.Tree).NewNode', '(*tree.Tree).ConnectNodes', '(*tree.Tree).GraftTipOnEdge', '(*tree.nni).Apply', '(*tree.nni).Undo',
                  '(*tree.Node).delNeighbor', '(*tree.Tree).delNode', '(*tree.Node).NodeIndex', '(*tree.Node).EdgeIndex',
                  ('(*tree.Tree).removeTip', {'match': [r'^return\.when_the_suppressed', r'^inv']}), '(*tree.Tree).edgesRecur', '(*tree.Tree).Edges', '(*tree.Tree).nodesRecur', '(*tree.Tree).Nodes', '(*tree.Tree).tipsRecur',
                  ('(*tree.Tree).Tips', {'match': [r'^post\.(elements_non_nil|only_tips|fresh_storage)', r'^frame', r'^pre', r'^nil', r'^bounds']}),
                  ('(*tree.Tree).internalEdgesRecur', {'match': [r'^post', r'^inv']}),
                  ('(*tree.Tree).InternalEdges', {'match': [r'^post', r'^inv']}),
                  '(*tree.Tree).RemoveEdges', '(*tree.Tree).unconnectNode',
                  ('(*tree.Tree).removeSingleNodesRecur', {'match': [r'^callsite', r'^inv', r'^store']}),
                  '(*tree.Node).ParentEdge', '(*tree.Tree).GraftTreeOnTip',
                  '(*tree.Tree).tipEdgesRecur', '(*tree.Tree).TipEdges'],
    'trusted_base': TB_COMMON,
    'assumptions': A_COMMON,
    'not_decided': ['acyclicity / connectivity after each surgery (A-GRAPH: lemmas L1-L9)', 'counting clauses (branches = nodes - 1; all = internal + external)', 'global symmetric adjacency as a quantified invariant'],
}

PROPS['C05'] = {
    'level': 'proof', 'claimed': True,
    'claim': 'unbounded proofs on the real code: Reroot / reroot_nocheck / ReorderEdges write only the root pointer and swap left/right of branches - every branch keeps its two ends as a set, lengths, supports, p-values, names and all adjacency arrays are not written; a tip is refused with an error and the root stays; UnRoot leaves an unrooted tree alone and otherwise suppresses the bifurcating root: the new root is its first child unless that is a tip, the old root is dead, the merging branch is fresh, the last branch of the new root, points away from it and carries max(0,l1)+max(0,l2) exactly when either length is present; RotateNeighbors keeps (neighbour, branch) pairs together (every slot ends up holding an original pair) and draws rand.Intn(i+1); LeastCommonAncestorRecur adds the wanted and foreign tip counts of each child exactly once (nothing for the side it came from) and reports every foreign tip below a node whether or not the node has a wanted tip below it; RerootOutGroup gives both halves of the separating branch half of its length (when it has one) and its support, unconditionally; RerootMidPoint returns an error instead of indexing an empty path, and cuts the chosen branch into two parts whose lengths add up to the old length, both with its support',
    'level_note': INVNOTE + '; ReinitInternalIndexes / LeastCommonAncestorUnrooted / MaxLengthPath enter through assumed thin contracts; monophyly verdict = split membership and maximality of the longest path are whole-tree facts not under contract; inside the midpoint search loop the index staying within the path needs the sum of lengths (reported, not claimed); floating-point rounding of length/2 (A-FP)',
    'packages': ['./tree', './hashmap'],
    'functions': ['(*tree.Tree).UnRoot', '(*tree.Tree).ReorderEdges', '(*tree.Tree).reroot_nocheck', '(*tree.Tree).Reroot', '(*tree.Node).RotateNeighbors',
                  ('(*tree.Tree).LeastCommonAncestorRecur', {'match': [r'^step', r'^return', r'^post', r'^inv']}),
                  ('(*tree.Tree).RerootOutGroup', {'match': [r'^callsite']}),
                  ('(*tree.Tree).RerootMidPoint', {'match': [r'^callsite', r'^inv', r'^step', r'^bounds\[(0|1|2|3|4|6|7|8|9|10|11)\]'] }),
                  'tree.MaxLengthPath', ('(*tree.Tree).LeastCommonAncestorUnrooted', {'match': [r'^callsite', r'^inv']}),
                  '(*tree.Tree).sortNeighbors', '(*tree.Tree).SortNeighborsByTips'],
    'trusted_base': TB_COMMON,
    'assumptions': A_COMMON,
    'not_decided': ['tip set / split set / path lengths invariance as whole-tree consequences (L7, L2, L3: A-GRAPH)', 'outgroup is exactly one root clade (needs the LCA monophyly stretch contract)', 'root halfway along a longest path (needs MaxLengthPath maximality)'],
}

PROPS['C09'] = {
    'level': 'proof', 'claimed': True,
    'claim': 'unbounded proofs on the real code: Consensus rejects a threshold outside [0.5,1] before reading anything; every input tree is unrooted (its two root branches count as one split) before it is indexed and every one of its branches is counted exactly once; the splits kept are exactly the index entries whose count is strictly greater than trunc(cutoff*n) or equal to n - EdgeIndex.Edges is proved to return exactly the entries in that window (every returned entry is in it and every entry in it is returned) - and the lemma k > trunc(x) <=> k > x for integer k and x >= 0 turns this into "frequency strictly greater than the threshold or present in every tree"; each kept split is inserted with mean length Len/Count and support Count/n; the branch hash is side-symmetric (C04)',
    'level_note': 'AddEdgeCount / AddBipartition / LeastCommonAncestorUnrooted / StarTreeFromTree / ReinitIndexes enter through assumed thin contracts; "number of branches in a class" = "number of trees containing the split" needs distinct branches of one tree to have distinct splits (unrooted, no degree-2 node) which UnRoot establishes for rooted input; "and no other split" in the output tree rests on the LCA stretch contract and A-GRAPH; rounding of cutoff*float64(n) (A-FP)',
    'packages': ['./tree', './hashmap'],
    'functions': [('tree.Consensus', {'match': [r'^callsite', r'^post', r'^inv']}), '(*tree.EdgeIndex).AddEdgeCount',
                  ('(*tree.Tree).AddBipartition', {'match': [r'^callsite', r'^step', r'^post', r'^inv']}),
                  ('tree.StarTreeFromTree', {'match': [r'^callsite']}), ('tree.StarTree', {'match': [r'^post', r'^callsite', r'^step', r'^inv']}),
                  ('(*tree.EdgeIndex).Edges', {'match': [r'^post', r'^inv', r'^typeassert', r'^nil', r'^bounds', r'^pre']}),
                  '(*tree.Edge).HashCode'],
    'lemma_files': ['tree'],
    'trusted_base': TB_COMMON,
    'assumptions': A_COMMON,
    'not_decided': ['count/len accumulation inside the index (hashmap + AddEdgeCount against an abstract map: C04 stretch)', 'order/rooting independence of the output tree shape (A-GRAPH)', 'taxon-set rejection clause'],
}
