"""Which functions / lemmas / special analyses decide which property (DESIGN.md section 4)."""

A_COMMON = [
    'A-ENGINE: the VC generator (exporter, symbolic executor, contract parser) is trusted; mitigated by selftest corpus and vacuity covers',
    'A-SSA: go/ssa (x/tools v0.29.0) translation of Go to SSA and go/types',
    'A-SMT: z3 5.1.0 / z3 4.8.12 / cvc5 1.0.3; one unsat answer discharges an obligation',
    'A-INT: int/uint arithmetic is mathematical (no wrap-around); A-FP: float64 is modelled as real numbers',
]
TB_COMMON = ['govc VC generator', 'go/ssa x/tools v0.29.0', 'z3 5.1.0', 'z3 4.8.12', 'cvc5 1.0.3']

PROPS = {}
NOT_APPLICABLE = {}

PROPS['C04'] = {
    'level': 'proof', 'claimed': True,
    'claim': 'unbounded proof, for all 4-tuples of taxa, that quartet equality (HashEquals) implies equal HashCode and that Compare classifies exactly as the statement says; further C04 clauses are added as their contracts discharge',
    'level_note': 'relative to the VC generator, go/ssa, the SMT solvers, mathematical integers (A-INT)',
    'packages': ['./tree', './hashmap'],
    'functions': [
        '(*tree.Quartet).Compare', '(*tree.Quartet).HashCode', '(*tree.Quartet).HashEquals',
        '(*tree.Edge).HashCode',
    ],
    'lemma_files': [],
    'trusted_base': TB_COMMON,
    'assumptions': A_COMMON,
    'not_decided': [],
}

PROPS['C19'] = {
    'level': 'proof', 'claimed': True,
    'claim': 'complete symbolic execution of package cmd\'s initialisation (variable initialisers and every init() in Go\'s order) under the pflag contract "XxxVar[P](p,..,value,..) ensures *p == value"; one obligation per registered option: the variable\'s value after all registrations equals the documented default. Exhaustive over all commands and options, whatever they are at the time of the run',
    'level_note': 'relative to the pflag/cobra contract (registration assigns the default; help prints DefValue; nothing else writes the option variables before flag parsing), go/ssa init order, the SMT solvers',
    'packages': ['./cmd'],
    'functions': [],
    'special': ['c19'],
    'trusted_base': TB_COMMON + ['spf13/pflag: (*FlagSet).TVar[P] assigns *p = value at registration and shows value as the default', 'spf13/cobra: Flags()/PersistentFlags() identity per command'],
    'assumptions': A_COMMON + ['RunE bodies may rewrite option variables after parsing (e.g. rootCpus clamped to NumCPU): not part of the property'],
    'not_decided': ['what each RunE does with the value; PersistentPreRun rewriting seed'],
    'technique': 'contract-based deductive verification: symbolic execution of the real init() SSA under the pflag contract, equalities discharged by z3/cvc5',
}

PROPS['C15'] = {
    'level': 'proof', 'claimed': True,
    'claim': 'unbounded proof that CopyNode/CopyEdge produce exact copies (names, ids, lengths, supports, p-values, index fields, node and branch comments element by element) in freshly allocated storage (comment slices and bitsets are not shared with the source) and write nothing else; further C15 functions are added as their contracts discharge',
    'level_note': 'relative to the VC generator, go/ssa, the SMT solvers, the trusted model of fredericlemoine/bitset (Clone returns a fresh object with equal contents)',
    'packages': ['./tree', './hashmap'],
    'functions': ['(*tree.Tree).CopyNode', '(*tree.Tree).CopyEdge'],
    'trusted_base': TB_COMMON,
    'assumptions': A_COMMON,
    'not_decided': ['clone structure as a whole (copyTreeRecur), graft/merge/insert transformers: not yet under contract'],
}
