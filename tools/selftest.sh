#!/bin/sh
# tools/selftest.sh [id]   run the must-fail corpus (seeded changes + reverted fixes); writes selftest/RESULTS.{json,md} when run for all
cd /verif && PYTHONPATH=govc/py exec python3-vt -m govc.selftest "$@"
