#!/bin/sh
# tools/trypatch.sh <patch> <id>...   apply a patch to /repo, run the quick checks, undo
P="$1"; shift
cd /repo && { [ -z "$(git status --short)" ] || { echo "repo dirty: commit first"; exit 3; }; } && git apply "$P" || exit 2
cd /verif
export GOVC_SCRATCH_OUT=/var/tmp/govc-scratch; for id in "$@"; do ./check "$id" quick | grep -E "VIOLATION|quick:|KNOWN" ; done
cd /repo && git checkout -- . && git status --short | grep -v '^??' 
