#!/usr/bin/env python3-vt
"""tools/addcomplete.py <ir.json>: for every `loop k` stanza of the contract files whose loop is, in the current code,
left only through its head or by returning, add the clause `complete [all_iterations_no_early_exit]` (if not there).
Loops with a break in the current code are listed and left alone (their contracts say what an early exit means)."""
import sys, os, re, glob
sys.path.insert(0, os.path.join(os.path.dirname(os.path.abspath(__file__)), '..', 'govc', 'py'))
from govc.ir import Program
from govc.symex import cfg_of
prog = Program(sys.argv[1])
REPO = os.environ.get('VERIF_REPO', '/repo')
for f in sorted(glob.glob(REPO + '/**/zz_verif_contracts.go', recursive=True)):
    lines = open(f).read().split('\n')
    out = []
    cur = None
    n_add = 0
    for i, ln in enumerate(lines):
        out.append(ln)
        m = re.match(r'\s*//@\s*func\s+(\S+)', ln)
        if m:
            cur = m.group(1)
            continue
        m = re.match(r'\s*//@\s+loop\s+(\d+)\s*$', ln)
        if m and cur:
            k = int(m.group(1))
            key = prog.resolve(cur)
            if key not in prog.funcs or not prog.funcs[key]['blocks']:
                continue
            # already there?
            j = i + 1
            has = False
            while j < len(lines) and re.match(r'\s*//@\s{5,}\S', lines[j]):
                if re.match(r'\s*//@\s+complete\b', lines[j]):
                    has = True
                j += 1
            if has:
                continue
            cfg = cfg_of(prog, key)
            L = [(h, l) for h, l in cfg['loops'].items() if l['ordinal'] == k]
            if not L:
                continue
            h, l = L[0]
            fn = prog.funcs[key]
            bad = []
            for b in l['body']:
                if b == h:
                    continue
                for s_ in fn['blocks'][b]['succs']:
                    if s_ in l['body']:
                        continue
                    tb = fn['blocks'][s_]
                    if tb['succs'] or not tb['instrs'] or tb['instrs'][-1]['op'] not in ('Return', 'Panic'):
                        bad.append((b, s_))
            if bad:
                print('early exit kept: %s loop %d' % (cur, k))
                continue
            out.append('//@     complete [all_iterations_no_early_exit]')
            n_add += 1
    if n_add:
        open(f, 'w').write('\n'.join(out))
        print('%s: %d loops marked complete' % (f, n_add))

# second pass: loops of functions under contract that have no `loop k` stanza at all get one holding only the clause
def loop_ok(fn, cfg, h, l):
    for b in l['body']:
        if b == h:
            continue
        for s_ in fn['blocks'][b]['succs']:
            if s_ in l['body']:
                continue
            tb = fn['blocks'][s_]
            if tb['succs'] or not tb['instrs'] or tb['instrs'][-1]['op'] not in ('Return', 'Panic'):
                return False
    return True


for f in sorted(glob.glob(REPO + '/**/zz_verif_contracts.go', recursive=True)):
    lines = open(f).read().split('\n')
    # blocks: index of `//@ func` line -> (name, last line index of its clause block)
    out = []
    i = 0
    n_add = 0
    while i < len(lines):
        ln = lines[i]
        m = re.match(r'\s*//@\s*func\s+(\S+)', ln)
        out.append(ln)
        i += 1
        if not m:
            continue
        cur = m.group(1)
        have = set()
        while i < len(lines) and re.match(r'\s*//@\s{2,}\S', lines[i]):
            mm = re.match(r'\s*//@\s+loop\s+(\d+)\s*$', lines[i])
            if mm:
                have.add(int(mm.group(1)))
            out.append(lines[i])
            i += 1
        key = prog.resolve(cur)
        if key not in prog.funcs or not prog.funcs[key]['blocks'] or cur.startswith('iface:'):
            continue
        cfg = cfg_of(prog, key)
        fn = prog.funcs[key]
        for h, l in sorted(cfg['loops'].items(), key=lambda x: x[1]['ordinal']):
            k = l['ordinal']
            if k in have:
                continue
            if loop_ok(fn, cfg, h, l):
                out.append('//@   loop %d' % k)
                out.append('//@     complete [all_iterations_no_early_exit]')
                n_add += 1
    if n_add:
        open(f, 'w').write('\n'.join(out))
        print('%s: %d loops without stanza marked complete' % (f, n_add))
