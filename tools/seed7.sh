#!/bin/sh
# tools/seed7.sh <id>...   confirm round-7 seeds of /tmp/seed7/<id>/out/{a,b} and store them as /verif/seeded/<id>{k,l}
for ID in "$@"; do
for x in a b; do
  S=/tmp/seed7/$ID/out/$x
  [ -f $S/patch.diff ] || { echo "no $S"; continue; }
  [ "$x" = a ] && y=k || y=l
  [ -d /verif/seeded/$ID$y ] && continue
  D=$(python3 -c "import json;print(json.load(open('$S/meta.json')).get('demo_dir','tests'))" 2>/dev/null || echo tests)
  D=${D%/}
  /verif/tools/seedverify.sh $ID $S $D ${ID}$y
done
done
