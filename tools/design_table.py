#!/usr/bin/env python3
"""tools/design_table.py: refresh the detection table of DESIGN.md §11.7 from selftest/RESULTS.json"""
import json, re
V = '/verif'
s = open(V + '/DESIGN.md').read()
rs = json.load(open(V + '/selftest/RESULTS.json'))
rows = ['| change | property | detected by (first obligations) | replayed on real code |', '|---|---|---|---|']
for r in rs:
    what = r['kind']
    if r['name'].startswith('seed-'):
        try:
            m = json.load(open('%s/seeded/%s/meta.json' % (V, r['name'][5:])))
            what = 'seed: ' + re.sub(r'\s+', ' ', m['breaks'])[:110].replace('|', '/')
        except Exception:
            pass
    fo = r.get('failed_obligations', [])
    if r['status'] == 'stale':
        det = '(patch no longer applies)'
    elif r['status'] == 'missed':
        det = '**not detected**'
    else:
        det = '<br>'.join('`%s`' % x.replace('|', '\\|') for x in fo[:2]) + (' (+%d)' % (len(fo) - 2) if len(fo) > 2 else '')
    rows.append('| %s — %s | %s | %s | %s |' % (r['name'], what, r['property'], det, 'yes' if r.get('replayed_on_real_code') else 'no'))
i = s.index('<!-- TABLE:BEGIN -->') + len('<!-- TABLE:BEGIN -->\n')
j = s.index('<!-- TABLE:END -->')
s = s[:i] + '\n'.join(rows) + '\n' + s[j:]
open(V + '/DESIGN.md', 'w').write(s)
print('%d rows' % (len(rows) - 2))
