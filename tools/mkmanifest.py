#!/usr/bin/env python3
"""regenerate MANIFEST.json from contracts/props.py (claimed properties) + the N/A reasons kept there"""
import json, importlib.util, os, subprocess
V = os.path.dirname(os.path.dirname(os.path.abspath(__file__)))
spec = importlib.util.spec_from_file_location('props', os.path.join(V, 'contracts', 'props.py'))
m = importlib.util.module_from_spec(spec); spec.loader.exec_module(m)
ids = [json.loads(l)['id'] for l in open(os.path.join(V, 'properties.jsonl'))]
hooks = subprocess.run(['git', '-C', '/repo', 'log', '--format=%h %s'], capture_output=True, text=True).stdout.splitlines()
hook_commits = [l.split()[0] for l in hooks if l.split(' ', 1)[1].startswith('verif:')]
checks = []
na = []
for i in ids:
    P = m.PROPS.get(i)
    if P and P.get('claimed'):
        checks.append({
            'property_id': i,
            'quick_cmd': './check %s quick' % i,
            'thorough_cmd': './check %s thorough' % i,
            'evidence_file': 'evidence/%s.json' % i,
            'replay_cmd_template': './check replay {path}',
            'engine': 'govc',
            'level_claimed': {'category': P['level'], 'text': P['claim'], 'design_ref': 'DESIGN.md section 4 (%s), section 11' % i},
            'level_note': P['level_note'],
            'technique': P.get('technique', 'contract-based deductive verification: weakest-precondition VCs over go/ssa of the real functions, discharged by z3/cvc5'),
        })
    else:
        na.append({'property_id': i, 'reason': m.NOT_APPLICABLE.get(i, 'check not built yet; see DESIGN.md')})
man = {
    'version': 1, 'setup_cmd': './setup.sh',
    'hooks': {'guard': 'verif', 'enable': '-tags verif: the exporter loads /repo with the tag so the comment-only contract files /repo/<pkg>/zz_verif_contracts.go are part of the package; they contain no code',
              'baseline_off_cmd': 'cd /repo && go test -mod=mod -vet=off -count=1 -timeout 25m ./...',
              'source_commits': hook_commits, 'add_only': True},
    'engines': [{'name': 'govc', 'path': '/verif/govc', 'serves_properties': [c['property_id'] for c in checks],
                 'kind_free_text': 'VC generator over go/ssa of /repo working tree + Gobra-style contracts in guarded comment files; obligations discharged by z3 5.1 / z3 4.8.12 / cvc5'}],
    'checks': checks,
    'notes': 'See DESIGN.md. Known findings: known_findings.txt. Seeded changes: seeded/.',
    'not_applicable': na,
}
json.dump(man, open(os.path.join(V, 'MANIFEST.json'), 'w'), indent=1)
print('claimed', [c['property_id'] for c in checks])
