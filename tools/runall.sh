#!/bin/sh
# run every claimed quick check on the current /repo tree (must be clean) and report
cd /verif
[ -z "$(git -C /repo status --short)" ] || { echo "/repo is dirty"; exit 3; }
for id in $(python3 -c "import json;print(' '.join(c['property_id'] for c in json.load(open('MANIFEST.json'))['checks']))"); do
  ./check $id quick | grep -E "VIOLATION|quick:|KNOWN"
done
