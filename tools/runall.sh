#!/bin/sh
# run every claimed quick check on the current /repo tree (must be clean) and report
cd /verif
[ -z "$(git -C /repo status --short)" ] || { echo "/repo is dirty"; exit 3; }
# the record of variable names (robustness against harmless renamings) is taken from the clean tree
(export GOFLAGS=-mod=mod GOPROXY=off GOSUMDB=off GOTOOLCHAIN=local; cd /verif/govc/export && go run . -dir /repo -tags verif -o /var/tmp/all.json ./... ) && python3-vt /verif/tools/mknames.py /var/tmp/all.json
for id in $(python3 -c "import json;print(' '.join(c['property_id'] for c in json.load(open('MANIFEST.json'))['checks']))"); do
  ./check $id quick | grep -E "VIOLATION|quick:|KNOWN"
done
