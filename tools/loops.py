#!/usr/bin/env python3-vt
"""tools/loops.py <ir.json> <funckey>: loop ordinals (as used by `loop k` / `@Lk` in contracts) with the source position of their first instruction"""
import sys, os
sys.path.insert(0, os.path.join(os.path.dirname(os.path.abspath(__file__)), '..', 'govc', 'py'))
from govc.ir import Program, analyze_cfg
prog = Program(sys.argv[1])
key = prog.resolve(sys.argv[2])
fn = prog.funcs[key]
cfg = analyze_cfg(fn)
for h, l in sorted(cfg['loops'].items(), key=lambda x: x[1]['ordinal']):
    blk = fn['blocks'][h]
    pos = ''
    for b in sorted(l['body']):
        for i in fn['blocks'][b]['instrs']:
            if i.get('pos'):
                pos = i['pos']; break
        if pos: break
    print('loop %d: head block %d (%s) body %s first pos %s' % (l['ordinal'], h, blk.get('comment', ''), sorted(l['body']), pos))
