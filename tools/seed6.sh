#!/bin/sh
# tools/seed6.sh <id>...   confirm round-6 seeds of /tmp/seed6/<id>/out/{a,b} and store them as /verif/seeded/<id>{i,j}
for ID in "$@"; do
for x in a b; do
  S=/tmp/seed6/$ID/out/$x
  [ -f $S/patch.diff ] || { echo "no $S"; continue; }
  [ "$x" = a ] && y=i || y=j
  [ -d /verif/seeded/$ID$y ] && continue
  D=$(python3 -c "import json;print(json.load(open('$S/meta.json')).get('demo_dir','tests'))" 2>/dev/null || echo tests)
  D=${D%/}
  /verif/tools/seedverify.sh $ID $S $D ${ID}$y
done
done
