#!/bin/sh
# tools/seedverify.sh <id> <src-out-dir> <demo-dest-dir-relative-to-repo> [seed-name]
# Confirms a seeded change in a scratch worktree of /repo HEAD: demo passes without, patch applies, builds,
# existing suite passes, demo fails with. Then stores it under /verif/seeded/<name>/.
ID="$1"; SRC="$2"; DEST="$3"; NAME="${4:-$ID}"
export GOFLAGS=-mod=mod GOPROXY=off GOSUMDB=off GOTOOLCHAIN=local
W=/tmp/sv/$NAME; rm -rf $W; mkdir -p /tmp/sv
git -C /repo worktree add -q --detach $W HEAD || exit 2
cd $W
DEMO=$DEST/zz_seed_demo_test.go
cp $SRC/demo_test.go $DEMO
RUN=$(grep -oE "^func (Test[A-Za-z0-9_]+)" $SRC/demo_test.go | sed "s/func //" | paste -sd"|")
R1=$(go test -vet=off -count=1 -timeout 300s -run "^($RUN)\$" ./$DEST/ 2>&1 | tail -3)
echo "$R1" | grep -q "^ok" && BASE_OK=yes || BASE_OK=no
rm -f $DEMO
git apply $SRC/patch.diff 2>/tmp/sv/$NAME.apply.err && APPLY=yes || APPLY=no
BUILD=no; SUITE=no; DEMOFAIL=no
if [ $APPLY = yes ]; then
  go build ./... 2>/dev/null && BUILD=yes
  S=$(go test -vet=off -count=1 -timeout 25m ./... 2>&1 | grep -E "^(--- FAIL|panic|FAIL.*(build|setup) failed)" | grep -v "TestEdgeNeighbor" | head -5)   # TestEdgeNeighbor is flaky on the unmodified tree (1 run in 25)
  [ -z "$S" ] && SUITE=yes
  cp $SRC/demo_test.go $DEMO
  R2=$(go test -vet=off -count=1 -timeout 300s -run "^($RUN)\$" ./$DEST/ 2>&1 | tail -40)
  echo "$R2" | grep -qE "^(FAIL|--- FAIL|panic)" && DEMOFAIL=yes
fi
echo "SEED $NAME demo_passes_on_head=$BASE_OK applies=$APPLY builds=$BUILD suite_passes=$SUITE demo_fails_with_patch=$DEMOFAIL suite_failures=[$S]"
if [ "$BASE_OK$APPLY$BUILD$SUITE$DEMOFAIL" = yesyesyesyesyes ]; then
  mkdir -p /verif/seeded/$NAME
  cp $SRC/patch.diff $SRC/demo_test.go /verif/seeded/$NAME/
  python3 - "$SRC/meta.json" "$NAME" "$ID" "$DEST" <<'PY'
import json,sys
src,name,pid,dest=sys.argv[1:5]
try: m=json.load(open(src))
except Exception: m={}
out={'property':pid,'breaks':m.get('summary',''),'needs_to_manifest':m.get('needs_to_manifest',''),
     'demo':'copy demo_test.go into %s/ of a checkout with patch.diff applied; go test -vet=off -count=1 ./%s/ fails; passes without the patch'%(dest,dest),
     'confirmed_by':'tools/seedverify.sh in a scratch worktree of /repo HEAD: demo passes on HEAD; patch applies; go build ./... ok; full suite passes; demo fails with the patch',
     'author_notes':m.get('verified','')}
json.dump(out,open('/verif/seeded/%s/meta.json'%name,'w'),indent=1)
PY
fi
cd /; git -C /repo worktree remove --force $W
