#!/usr/bin/env python3
"""tools/ssadump.py <ir.json> <funckey> : readable dump of one exported function"""
import json, sys
d = json.load(open(sys.argv[1]))
f = d['funcs'][sys.argv[2]]
def o(x):
    if x is None: return '-'
    if x['k'] == 'const': return 'c:' + str(x.get('v'))
    if x['k'] == 'global': return '@' + x['name']
    if x['k'] == 'func': return 'fn:' + x['key']
    return x.get('name', '?')
print('params', [(p['name'], p['type']) for p in f['params']], 'free', [(p['name'], p['type']) for p in f['freevars']])
for b in f['blocks']:
    print('block', b['index'], b['comment'], 'preds', b['preds'], 'succs', b['succs'])
    for i in b['instrs']:
        if i['op'] == 'DebugRef' and len(sys.argv) < 4: continue
        extra = {k: (o(v) if isinstance(v, dict) and 'k' in v else v) for k, v in i.items() if k not in ('op', 'name', 'type', 'pos', 'sig', 'static_name', 'static_pkg', 'static_recv', 'callee')}
        if 'edges' in i: extra['edges'] = [o(e) for e in i['edges']]
        if 'args' in i: extra['args'] = [o(e) for e in i['args']]
        if 'bindings' in i: extra['bindings'] = [o(e) for e in i['bindings']]
        if 'results' in i: extra['results'] = [o(e) for e in i['results']]
        print('   ', i.get('name', ''), i['op'], extra, ':' + i.get('type', '') if i.get('name') else '')
