#!/usr/bin/env python3-vt
"""tools/obl.py <ir.json> <funckey> [name-substring]: list obligations (name, pos, text); dump smt2 of matching ones to /var/tmp/obl/"""
import sys, os
sys.path.insert(0, os.path.join(os.path.dirname(os.path.abspath(__file__)), '..', 'govc', 'py'))
from govc.ir import Program
from govc.world import World
from govc.dev import load_contracts
from govc.verify import gen_function, obligation_smt2
from govc import externals
prog = Program(sys.argv[1])
c = load_contracts(prog=prog)
key = prog.resolve(sys.argv[2])
V = gen_function(World(prog), c, externals.EXT, key)
os.makedirs('/var/tmp/obl', exist_ok=True)
for ob in V.obls:
    print(ob.name, '|', ob.pos, '|', ob.text)
    if len(sys.argv) > 3 and sys.argv[3] in ob.name:
        p = '/var/tmp/obl/' + ob.name.replace('/', '_').replace(' ', '') + '.smt2'
        open(p, 'w').write(obligation_smt2(V, ob))
        print('   ->', p)
