#!/bin/bash
# tools/dev.sh [-x] <funckey>...  : verify functions against /repo's contracts using the IR in /var/tmp/all.json (-x: re-export first)
export GOFLAGS=-mod=mod GOPROXY=off GOSUMDB=off GOTOOLCHAIN=local PYTHONPATH=/verif/govc/py
# DEVREPO=<dir>: work on a scratch copy of the repository instead of /repo (IR in /var/tmp/all-dev.json)
R=${DEVREPO:-/repo}; IR=/var/tmp/all.json; [ "$R" = /repo ] || IR=/var/tmp/all-dev.json
if [ "$1" = "-x" ] || [ ! -f $IR ]; then [ "$1" = "-x" ] && shift; (cd /verif/govc/export && go run . -dir $R -tags verif -o $IR ./... ) || exit 2; fi
VERIF_REPO=$R python3-vt -m govc.dev $IR "$@" 2>&1 | grep -v "^  ok\|^unsat"
