#!/bin/bash
# tools/dev.sh [-x] <funckey>...  : verify functions against /repo's contracts using the IR in /var/tmp/all.json (-x: re-export first)
export GOFLAGS=-mod=mod GOPROXY=off GOSUMDB=off GOTOOLCHAIN=local PYTHONPATH=/verif/govc/py
if [ "$1" = "-x" ]; then shift; (cd /verif/govc/export && go run . -dir /repo -tags verif -o /var/tmp/all.json ./... ) || exit 2; fi
python3-vt -m govc.dev /var/tmp/all.json "$@" 2>&1 | grep -v "^  ok\|^unsat"
