#!/bin/bash
# tools/seedround.sh <N> : prepare seeding round N: prompts in /var/tmp/seed<N>prompts/<id>.txt (property text + what earlier
# rounds already changed), one standalone scratch copy of /repo HEAD per property in /tmp/seed<N>/<id>/wt without the
# contract files. The agents are then started by hand (one per property) with only that prompt.
N=$1
export GOFLAGS=-mod=mod GOPROXY=off GOSUMDB=off GOTOOLCHAIN=local
mkdir -p /var/tmp/seed${N}prompts
python3 - "$N" <<'E'
import json,os,re,glob,sys
N=sys.argv[1]
used={}
for d in sorted(glob.glob('/verif/seeded/C*')):
    try: m=json.load(open(d+'/meta.json'))
    except Exception: continue
    pid=m.get('property',os.path.basename(d)[:3])
    b=m.get('breaks','') or m.get('summary','')
    used.setdefault(pid,[]).append(re.sub(r'\s+',' ',b)[:110])
for ln in open('/verif/properties.jsonl'):
    p=json.loads(ln); pid=p['id']
    s=open('/verif/selftest/prompts/round4/%s.txt'%pid).read()
    s=s.replace('/tmp/seed4/','/tmp/seed%s/'%N)
    s=re.sub(r'neither may repeat a change already made in earlier rounds, which were: .*? Choose other functions .*?or clearly different slips\.',
             lambda m_: 'neither may repeat a change already made in earlier rounds, which were: '+' || '.join(used.get(pid,[]))+'. Choose other functions (prefer anchored functions, and small helpers or drivers they call, that no earlier round touched) or clearly different slips.', s, flags=re.S)
    open('/var/tmp/seed%sprompts/%s.txt'%(N,pid),'w').write(s)
E
rm -rf /tmp/seed$N
for i in $(seq -w 1 20); do d=/tmp/seed$N/C$i; mkdir -p $d/out $d/wt; rsync -a --exclude .git --exclude 'zz_verif_contracts.go' /repo/ $d/wt/; (cd $d/wt && git init -q && git add -A && git -c user.name=s -c user.email=s@s commit -qm baseline); done
ls /tmp/seed$N | wc -l
