#!/usr/bin/env python3-vt
"""tools/mknames.py [ir.json]: write /verif/contracts/names.json (names and signatures of the variables of every function
under contract, from the unchanged tree) - see govc/names.py"""
import sys, os, json, glob, re, subprocess
sys.path.insert(0, os.path.join(os.path.dirname(os.path.abspath(__file__)), '..', 'govc', 'py'))
os.environ['GOVC_NO_NAMES'] = '1'
from govc.ir import Program
from govc import names
ir = sys.argv[1] if len(sys.argv) > 1 else '/var/tmp/all.json'
prog = Program(ir)
keys = set()
for f in glob.glob('/repo/**/zz_verif_contracts.go', recursive=True):
    for ln in open(f):
        m = re.match(r'\s*//@\s*func\s+(\S+)', ln)
        if m and not m.group(1).startswith('iface:'):
            keys.add(m.group(1))
out = {}
for k in sorted(keys):
    fn = prog.funcs.get(prog.resolve(k))
    if fn and fn['blocks']:
        out[k] = names.record(fn)
json.dump(out, open(names.SIDE, 'w'), indent=0, sort_keys=True)
print('names.json: %d functions' % len(out))
