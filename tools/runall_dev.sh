#!/bin/bash
# tools/runall_dev.sh [ids...]: run the quick checks against the scratch copy /var/tmp/devrepo (evidence and replays go to /var/tmp/devout)
cd /verif
IDS="$@"; [ -n "$IDS" ] || IDS=$(seq -f 'C%02g' 1 20)
for id in $IDS; do VERIF_REPO=/var/tmp/devrepo GOVC_SCRATCH_OUT=/var/tmp/devout GOVC_NO_SELFTEST=1 ./check $id quick 2>&1 | grep -v "^KNOWN-FINDING" | tail -4; done
