#!/bin/sh
# tools/seed2.sh <id>   confirm round-2 seeds of /tmp/seed2/<id>/out/{a,b} and store them as /verif/seeded/<id>{a,b}
ID="$1"
for x in a b; do
  S=/tmp/seed2/$ID/out/$x
  [ -f $S/patch.diff ] || { echo "no $S"; continue; }
  D=$(python3 -c "import json;print(json.load(open('$S/meta.json')).get('demo_dir','tests'))" 2>/dev/null || echo tests)
  D=${D%/}
  /verif/tools/seedverify.sh $ID $S $D ${ID}$x
done
